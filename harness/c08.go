package main

import (
	"bufio"
	"bytes"
	"crypto/tls"
	"fmt"
	"io"
	"math/rand/v2"
	"net"
	"net/http"
	"net/http/httptest"
	"net/textproto"
	"net/url"
	"os"
	"strconv"
	"strings"
	"sync"
	"time"

	"github.com/vulcand/oxy/v2/forward"
	"github.com/vulcand/oxy/v2/stream"
)

func init() {
	register(&Property{
		ID:    "C08",
		Level: "exploration",
		Rule: "raw-TCP client (exact bytes, no client-side normalisation) -> real proxy server (plain and TLS, peers 127.0.0.1 and [::1]; zoned IPv6 peers as synthetic RemoteAddr) running forward.New(passHost) -> recording raw-TCP backend; request targets from a grammar over RFC 3986 pchar (escaped slashes/spaces/percent, upper and lower-case hex, multi-byte escapes, ';' '+' ',' '=' '@' ':', '//', dot segments, empty query '?', queries with '& = ; + / ? %xx'), 0-8 end-to-end and 0-4 hop-by-hop headers, Connection naming custom and forwarding headers, upstream-supplied X-Forwarded-*, Host with and without port, both pass-through settings; scripted backend responses with hop-by-hop and end-to-end headers; " +
			"Hosts incl. IPv6 literals with and without port; websocket handshakes (declined by the backend) with upstream-supplied forwarding headers; " +
			"oracle computed from the bytes sent and the socket used, independent of oxy; non-trivial = request with an escaped or unusual target or with hop-by-hop / forwarding headers; distinct by (target, header set, configuration)",
		Assumptions: []string{"exemptions that are documented behaviour of net/http's reverse proxy and not demanded by the statement: 'Te: trailers' kept, upgrade requests, Accept-Encoding added by the transport, blank User-Agent", "an upstream-supplied X-Forwarded-Server may be kept or replaced by the proxy's own name"},
		Parts:       []Part{{Name: "rewrite", Shards: 12, Fn: c08Rewrite}},
	})
}

// ---- recording backend ----

type rawReq struct {
	line    string
	headers [][2]string // in wire order, names as sent
	body    []byte
}

func (r *rawReq) get(name string) []string {
	var out []string
	for _, h := range r.headers {
		if strings.EqualFold(h[0], name) {
			out = append(out, h[1])
		}
	}
	return out
}

type recBackend struct {
	l        net.Listener
	mu       sync.Mutex
	reqs     []*rawReq
	response func() []byte
	wg       sync.WaitGroup
}

func newRecBackend(network, addr string) (*recBackend, error) {
	l, err := listenRetry(network, addr)
	if err != nil {
		return nil, err
	}
	b := &recBackend{l: l}
	b.response = func() []byte { return []byte("HTTP/1.1 200 OK\r\nContent-Length: 2\r\n\r\nok") }
	go func() {
		for {
			conn, err := l.Accept()
			if err != nil {
				return
			}
			b.wg.Add(1)
			go func() {
				defer b.wg.Done()
				defer conn.Close()
				_ = conn.SetDeadline(time.Now().Add(30 * time.Second))
				br := bufio.NewReader(conn)
				for {
					rq, err := readRawReq(br)
					if err != nil {
						return
					}
					b.mu.Lock()
					b.reqs = append(b.reqs, rq)
					resp := b.response()
					b.mu.Unlock()
					if _, err := conn.Write(resp); err != nil {
						return
					}
					if bytes.Contains(bytes.ToLower(resp), []byte("connection: close")) {
						return
					}
				}
			}()
		}
	}()
	return b, nil
}

func readRawReq(br *bufio.Reader) (*rawReq, error) {
	line, err := br.ReadString('\n')
	if err != nil {
		return nil, err
	}
	rq := &rawReq{line: strings.TrimRight(line, "\r\n")}
	cl := 0
	chunked := false
	for {
		l, err := br.ReadString('\n')
		if err != nil {
			return nil, err
		}
		l = strings.TrimRight(l, "\r\n")
		if l == "" {
			break
		}
		i := strings.IndexByte(l, ':')
		if i < 0 {
			continue
		}
		name, val := l[:i], strings.TrimSpace(l[i+1:])
		rq.headers = append(rq.headers, [2]string{name, val})
		if strings.EqualFold(name, "Content-Length") {
			cl, _ = strconv.Atoi(val)
		}
		if strings.EqualFold(name, "Transfer-Encoding") && strings.Contains(strings.ToLower(val), "chunked") {
			chunked = true
		}
	}
	if chunked {
		for {
			szl, err := br.ReadString('\n')
			if err != nil {
				return nil, err
			}
			n, _ := strconv.ParseInt(strings.TrimSpace(szl), 16, 64)
			buf := make([]byte, n+2)
			if _, err := io.ReadFull(br, buf); err != nil {
				return nil, err
			}
			rq.body = append(rq.body, buf[:n]...)
			if n == 0 {
				break
			}
		}
	} else if cl > 0 {
		rq.body = make([]byte, cl)
		if _, err := io.ReadFull(br, rq.body); err != nil {
			return nil, err
		}
	}
	return rq, nil
}

func (b *recBackend) last() *rawReq {
	b.mu.Lock()
	defer b.mu.Unlock()
	if len(b.reqs) == 0 {
		return nil
	}
	return b.reqs[len(b.reqs)-1]
}

func (b *recBackend) count() int {
	b.mu.Lock()
	defer b.mu.Unlock()
	return len(b.reqs)
}

func (b *recBackend) close() { b.l.Close() }

// ---- target grammar ----

func genSegment(r *rand.Rand) string {
	pieces := []string{"a", "b", "seg", "x1", "-", ".", "_", "~", "%2F", "%2f", "%20", "%25", "%41", "%C3%A9", "%E2%82%AC", "%3B", "%3F", "%23", ";", "+", ",", "=", "@", ":", "!", "$", "&", "'", "(", ")", "*", ";v=1", "a+b", "%7C", "%5C", "%22"}
	n := 1 + r.IntN(4)
	var sb strings.Builder
	for i := 0; i < n; i++ {
		sb.WriteString(pick(r, pieces))
	}
	return sb.String()
}

func genTarget(r *rand.Rand) (string, string) {
	feature := "plain"
	var sb strings.Builder
	nseg := 1 + r.IntN(4)
	for i := 0; i < nseg; i++ {
		sb.WriteByte('/')
		switch r.IntN(10) {
		case 0:
			// empty segment => "//"
			feature = "slashes"
		case 1:
			sb.WriteString(".")
			feature = "dots"
		case 2:
			sb.WriteString("..")
			feature = "dots"
		default:
			sb.WriteString(genSegment(r))
		}
	}
	if r.IntN(6) == 0 {
		sb.WriteByte('/')
	}
	p := sb.String()
	if strings.Contains(p, "%") {
		feature = "escapes"
	}
	switch r.IntN(7) {
	case 0:
		p += "?"
		feature = "empty-query"
	case 1, 2:
		q := []string{"x=1", "a=b&c=d", "q=a+b", "q=a%20b", "k=%2F%3F", "a;b=c", "x=/path/?z", "redirect=http://h/p?a=1", "e=", "=v", "&&", "a=%C3%A9"}
		p += "?" + pick(r, q)
		if r.IntN(3) == 0 {
			p += "&" + pick(r, q)
		}
		if feature == "plain" {
			feature = "query"
		}
	}
	return p, feature
}

// ---- raw client ----

func rawExchange(addr string, useTLS bool, reqBytes []byte) (*http.Response, []byte, string, error) {
	conn, err := dialRetry("tcp", addr)
	if err != nil {
		return nil, nil, "", err
	}
	local := conn.LocalAddr().String()
	var rw net.Conn = conn
	if useTLS {
		tc := tls.Client(conn, &tls.Config{InsecureSkipVerify: true})
		if err := tc.Handshake(); err != nil {
			conn.Close()
			return nil, nil, local, err
		}
		rw = tc
	}
	defer rw.Close()
	_ = rw.SetDeadline(time.Now().Add(30 * time.Second))
	if _, err := rw.Write(reqBytes); err != nil {
		return nil, nil, local, err
	}
	resp, err := http.ReadResponse(bufio.NewReader(rw), nil)
	if err != nil {
		return nil, nil, local, err
	}
	body, _ := io.ReadAll(resp.Body)
	return resp, body, local, nil
}

var c08HopStatic = []string{"Keep-Alive", "Proxy-Authenticate", "Proxy-Authorization", "Proxy-Connection", "Trailer", "Upgrade"}

func c08Rewrite(c *Ctx) {
	hostname, _ := os.Hostname()
	// shared infrastructure per child
	backs := map[string]*recBackend{}
	for _, n := range []struct{ net, addr string }{{"tcp4", "127.0.0.1:0"}, {"tcp6", "[::1]:0"}} {
		b, err := newRecBackend(n.net, n.addr)
		if err == nil {
			backs[n.net] = b
			defer b.close()
		}
	}
	if backs["tcp4"] == nil {
		c.Inconclusive("cannot listen on 127.0.0.1")
		return
	}
	type proxyKey struct {
		tls, passHost bool
		net          string
	}
	var curBackend *recBackend
	var curMu sync.Mutex
	proxies := map[proxyKey]*httptest.Server{}
	mk := func(k proxyKey) *httptest.Server {
		if p := proxies[k]; p != nil {
			return p
		}
		fwd := forward.New(k.passHost)
		// the same forwarder behind a pass-through middleware of the library in verbose mode (it dumps every request through
		// a Logger that really formats): used for the requests that carry X-Verbose-Front
		verboseFront, err := stream.New(fwd, stream.Verbose(true), stream.Logger(fmtLogger{}))
		if err != nil {
			return nil
		}
		h := http.HandlerFunc(func(w http.ResponseWriter, req *http.Request) {
			curMu.Lock()
			b := curBackend
			curMu.Unlock()
			// what a balancer does: point the request at the chosen backend (a server URL with its own path)
			req.URL = &url.URL{Scheme: "http", Host: b.l.Addr().String(), Path: "/ignored-backend-prefix"}
			if req.Header.Get("X-Verbose-Front") != "" {
				req.Header.Del("X-Verbose-Front")
				verboseFront.ServeHTTP(w, req)
				return
			}
			fwd.ServeHTTP(w, req)
		})
		netw, addr := "tcp4", "127.0.0.1:0"
		if k.net == "tcp6" {
			netw, addr = "tcp6", "[::1]:0"
		}
		if l, err := listenRetry(netw, addr); err != nil {
			return nil
		} else {
			l.Close()
		}
		s := newUnstartedServer(h, netw, addr)
		if k.tls {
			s.StartTLS()
		} else {
			s.Start()
		}
		proxies[k] = s
		return s
	}
	defer func() {
		for _, p := range proxies {
			p.Close()
		}
	}()

	c.Cases("req", c.N(2500, 60000), func(i int, r *rand.Rand) {
		k := proxyKey{tls: r.IntN(4) == 0, passHost: r.IntN(2) == 0, net: "tcp4"}
		if backs["tcp6"] != nil && r.IntN(4) == 0 {
			k.net = "tcp6"
		}
		p := mk(k)
		if p == nil {
			return
		}
		back := backs["tcp4"]
		if backs["tcp6"] != nil && r.IntN(5) == 0 {
			back = backs["tcp6"]
		}
		curMu.Lock()
		curBackend = back
		curMu.Unlock()
		target, feature := genTarget(r)
		if i == 0 {
			target, feature = "/p?", "empty-query"
		}
		tfeature := feature
		method := pick(r, []string{"GET", "GET", "POST", "PUT", "DELETE"})
		hostHdr := pick(r, []string{"front.test", "front.test:8443", "front.test:80", "10.1.2.3:9000", "10.1.2.3", "[::1]", "[2001:db8::8443]", "[2001:db8::1]:8080", "front.test:", "[2001:db8::1]:"})
		absolute := r.IntN(12) == 0
		// header set
		type hv struct{ k, v string }
		var hdrs []hv
		e2e := map[string][]string{}
		for n := r.IntN(9); n > 0; n-- {
			name := pick(r, []string{"X-App", "Accept", "Accept-Language", "Cookie", "X-Multi", "Authorization", "Cache-Control", "X-Trace-Id", "If-None-Match", "Content-Type"})
			val := pick(r, []string{"v1", "a, b", "text/html;q=0.9", "k=v; k2=v2", "W/\"etag\"", "Bearer abc.def", "no-cache", randToken(r, 1+r.IntN(12))})
			hdrs = append(hdrs, hv{name, val})
			e2e[name] = append(e2e[name], val)
		}
		var connTokens []string
		hop := map[string]bool{}
		for n := r.IntN(5); n > 0; n-- {
			switch r.IntN(4) {
			case 0:
				name := pick(r, c08HopStatic[:4])
				hdrs = append(hdrs, hv{name, "hopvalue"})
				hop[name] = true
			default:
				name := pick(r, []string{"X-Hop-Custom", "X-Session-Hop", "X-Secret"})
				hdrs = append(hdrs, hv{name, "hop-by-connection"})
				connTokens = append(connTokens, name)
				hop[name] = true
				delete(e2e, name)
			}
		}
		// a websocket handshake (the backend in this script declines it with an ordinary response): Connection: Upgrade and
		// Upgrade: websocket are passed on by the reverse proxy by design; everything else is as for any request
		upgrade := method == "GET" && r.IntN(10) == 0
		if upgrade {
			hdrs = append(hdrs, hv{"Upgrade", "websocket"}, hv{"Sec-Websocket-Version", "13"})
			e2e["Sec-Websocket-Version"] = []string{"13"}
			connTokens = append(connTokens, "Upgrade")
			c.Count("websocket_handshakes", 1)
		}
		// forwarding headers supplied by an upstream proxy
		supplied := map[string]string{}
		suppliedMore := map[string][]string{} // further lines of the same field, in wire order after the first
		for _, name := range []string{"X-Forwarded-Proto", "X-Forwarded-Host", "X-Forwarded-Port", "X-Forwarded-Server", "X-Real-Ip", "X-Forwarded-For"} {
			if r.IntN(6) == 0 {
				v := map[string]string{"X-Forwarded-Proto": pick(r, []string{"https", "https", "http", "ws", "wss"}), "X-Forwarded-Host": "orig.example", "X-Forwarded-Port": "8443", "X-Forwarded-Server": "edge-1", "X-Real-Ip": "203.0.113.9", "X-Forwarded-For": "203.0.113.9, 198.51.100.2"}[name]
				hdrs = append(hdrs, hv{name, v})
				supplied[name] = v
				if name == "X-Forwarded-Proto" && r.IntN(3) == 0 {
					// a chain of upstream proxies may supply the field on several lines: forwarded as supplied
					hdrs = append(hdrs, hv{name, "http"})
					suppliedMore[name] = []string{"http"}
				}
			}
		}
		// the client declares forwarding headers hop-by-hop
		fwdInConn := map[string]bool{}
		if r.IntN(6) == 0 || i == 1 {
			for _, name := range []string{"X-Forwarded-Host", "X-Real-Ip", "X-Forwarded-Proto", "X-Forwarded-Port", "X-Forwarded-Server"} {
				if r.IntN(2) == 0 || i == 1 {
					connTokens = append(connTokens, name)
					fwdInConn[name] = true
				}
			}
			feature = "forwarding-in-connection"
		}
		// Connection tokens are case-insensitive
		for k, tok := range connTokens {
			switch r.IntN(4) {
			case 0:
				connTokens[k] = strings.ToLower(tok)
			case 1:
				connTokens[k] = strings.ToUpper(tok)
			}
		}
		r.Shuffle(len(hdrs), func(a, b int) { hdrs[a], hdrs[b] = hdrs[b], hdrs[a] })
		// a field supplied on several lines: "the value" is the first line on the wire, the others follow in wire order
		for name := range suppliedMore {
			var lines []string
			for _, h := range hdrs {
				if h.k == name {
					lines = append(lines, h.v)
				}
			}
			supplied[name], suppliedMore[name] = lines[0], lines[1:]
		}
		for name := range e2e { // expected values in wire order
			e2e[name] = nil
			for _, h := range hdrs {
				if h.k == name {
					e2e[name] = append(e2e[name], h.v)
				}
			}
		}
		var body []byte
		if method == "POST" || method == "PUT" {
			body = detBody(r.IntN(2000), uint64(i))
		}
		var rb bytes.Buffer
		rt := target
		if absolute {
			rt = "http://" + hostHdr + target
		}
		fmt.Fprintf(&rb, "%s %s HTTP/1.1\r\nHost: %s\r\n", method, rt, hostHdr)
		if !upgrade && i%5 == 2 {
			rb.WriteString("X-Verbose-Front: 1\r\n")
			c.Count("requests_behind_a_verbose_middleware", 1)
		}
		for _, h := range hdrs {
			fmt.Fprintf(&rb, "%s: %s\r\n", h.k, h.v)
		}
		if len(connTokens) > 1 && r.IntN(3) == 0 {
			// the list may legally span several header lines
			cut := 1 + r.IntN(len(connTokens)-1)
			fmt.Fprintf(&rb, "Connection: %s\r\n", strings.Join(connTokens[:cut], ", "))
			fmt.Fprintf(&rb, "Connection: %s\r\n", strings.Join(connTokens[cut:], ","))
			c.Count("connection_list_on_two_lines", 1)
		} else if len(connTokens) > 0 {
			fmt.Fprintf(&rb, "Connection: %s\r\n", strings.Join(connTokens, ", "))
		}
		if body != nil {
			fmt.Fprintf(&rb, "Content-Length: %d\r\n", len(body))
		}
		rb.WriteString("\r\n")
		rb.Write(body)

		// scripted backend response
		respE2E := map[string]string{"X-Backend": "b1", "Etag": "\"abc\"", "Cache-Control": "max-age=5", "Content-Type": "application/x-verif"}
		respHop := map[string]string{"Keep-Alive": "timeout=5", "Proxy-Authenticate": "Basic", "X-Resp-Hop": "secret"}
		status := pick(r, []int{200, 201, 404, 500})
		payload := detBody(r.IntN(3000), uint64(i)+7)
		back.mu.Lock()
		back.response = func() []byte {
			var b bytes.Buffer
			fmt.Fprintf(&b, "HTTP/1.1 %d Status\r\n", status)
			for k, v := range respE2E {
				fmt.Fprintf(&b, "%s: %s\r\n", k, v)
			}
			for k, v := range respHop {
				fmt.Fprintf(&b, "%s: %s\r\n", k, v)
			}
			fmt.Fprintf(&b, "Connection: X-Resp-Hop\r\nContent-Length: %d\r\n\r\n", len(payload))
			b.Write(payload)
			return b.Bytes()
		}
		before := len(back.reqs)
		back.mu.Unlock()

		resp, respBody, local, err := rawExchange(p.Listener.Addr().String(), k.tls, rb.Bytes())
		c.Eval()
		desc := map[string]any{"request": string(rb.Bytes()[:min(rb.Len(), 600)]), "tls": k.tls, "pass_host": k.passHost, "proxy_net": k.net}
		if err != nil {
			c.Violation("exchange/failed", sfmt("raw exchange failed: %v", err), desc)
			return
		}
		if back.count() != before+1 {
			c.Violation("exchange/backend-count", sfmt("backend received %d requests for one client request (status %d)", back.count()-before, resp.StatusCode), desc)
			return
		}
		got := back.last()
		desc["backend_saw"] = got.line
		// 1. request line
		wantLine := method + " " + target + " HTTP/1.1"
		if got.line != wantLine {
			key := "target/" + tfeature
			c.Violation(key, sfmt("backend received request line %q, client sent target %q (want %q)", got.line, rt, wantLine), desc)
			return
		}
		// 2. Host
		wantHost := back.l.Addr().String()
		if k.passHost {
			wantHost = hostHdr
		}
		if h := got.get("Host"); len(h) != 1 || h[0] != wantHost {
			c.Violation("host", sfmt("backend saw Host %q, want %q (passHost=%v)", h, wantHost, k.passHost), desc)
			return
		}
		// 3. hop-by-hop
		for name := range hop {
			if v := got.get(name); len(v) > 0 {
				c.Violation("hop/request", sfmt("hop-by-hop header %s reached the backend with %q", name, v), desc)
				return
			}
		}
		if v := got.get("Connection"); !upgrade && len(v) > 0 && strings.TrimSpace(v[0]) != "" && !strings.EqualFold(v[0], "close") {
			c.Violation("hop/request", sfmt("Connection header reached the backend with %q", v), desc)
			return
		}
		// 4. end-to-end preserved
		for name, vals := range e2e {
			if fwdInConn[name] {
				continue
			}
			if g := got.get(name); strings.Join(g, "\x00") != strings.Join(vals, "\x00") {
				c.Violation("e2e/request", sfmt("end-to-end header %s: backend saw %q, client sent %q", name, g, vals), desc)
				return
			}
		}
		if body != nil && !bytes.Equal(got.body, body) {
			c.Violation("e2e/request-body", sfmt("backend saw %d body bytes, client sent %d", len(got.body), len(body)), desc)
			return
		}
		// 5. forwarding headers
		peerIP, _, _ := net.SplitHostPort(local)
		scheme, defPort := "http", "80"
		if k.tls {
			scheme, defPort = "https", "443"
		}
		wantPort := defPort
		if _, hp, err := net.SplitHostPort(hostHdr); err == nil && hp != "" {
			wantPort = hp
		}
		exp := map[string]string{"X-Forwarded-Proto": scheme, "X-Forwarded-Host": hostHdr, "X-Forwarded-Port": wantPort, "X-Real-Ip": peerIP, "X-Forwarded-Server": hostname}
		for name, derived := range exp {
			want := derived
			sup, isSup := supplied[name]
			if isSup && !fwdInConn[name] {
				want = sup
			}
			if name == "X-Forwarded-Port" && (!isSup || fwdInConn[name]) {
				// derived port follows the (possibly supplied) proto when the Host carries no port
				if _, hp, err := net.SplitHostPort(hostHdr); err != nil || hp == "" {
					if pr, ok := supplied["X-Forwarded-Proto"]; ok && !fwdInConn["X-Forwarded-Proto"] {
						if pr == "https" || pr == "wss" {
							want = "443"
						}
					}
				}
			}
			g := got.get(name)
			okv := len(g) == 1 && g[0] == want
			if more := suppliedMore[name]; len(more) > 0 && isSup && !fwdInConn[name] {
				okv = strings.Join(g, "\x00") == strings.Join(append([]string{want}, more...), "\x00")
			}
			if upgrade && name == "X-Forwarded-Proto" && !isSup && len(g) == 1 && (g[0] == map[string]string{"http": "ws", "https": "wss"}[scheme]) {
				okv = true // for a websocket handshake ws/wss describes the incoming connection just as well
			}
			if name == "X-Forwarded-Server" && isSup && len(g) == 1 && (g[0] == sup || g[0] == hostname) {
				okv = true
			}
			if !okv {
				key := "forwarding/" + name
				if fwdInConn[name] {
					key = "forwarding/named-in-connection"
				}
				c.Violation(key, sfmt("backend saw %s = %q, want %q (upstream supplied %q, named in Connection: %v)", name, g, want, sup, fwdInConn[name]), desc)
				return
			}
		}
		xff := got.get("X-Forwarded-For")
		okx := len(xff) >= 1
		if okx {
			parts := strings.Split(xff[len(xff)-1], ",")
			lastIP := strings.TrimSpace(parts[len(parts)-1])
			okx = lastIP == peerIP
			if sup, ok := supplied["X-Forwarded-For"]; ok && okx {
				okx = strings.HasPrefix(strings.Join(xff, ", "), sup)
			}
		}
		if !okx {
			c.Violation("forwarding/X-Forwarded-For", sfmt("backend saw X-Forwarded-For %q; peer address %s must be appended (upstream supplied %q)", xff, peerIP, supplied["X-Forwarded-For"]), desc)
			return
		}
		// 6. response direction
		if resp.StatusCode != status || !bytes.Equal(respBody, payload) {
			c.Violation("response/relay", sfmt("client saw status %d with %d body bytes, backend sent %d with %d", resp.StatusCode, len(respBody), status, len(payload)), desc)
			return
		}
		for name, v := range respE2E {
			if resp.Header.Get(name) != v {
				c.Violation("e2e/response", sfmt("end-to-end response header %s: client saw %q, backend sent %q", name, resp.Header.Get(name), v), desc)
				return
			}
		}
		for name := range respHop {
			if resp.Header.Get(name) != "" {
				c.Violation("hop/response", sfmt("hop-by-hop response header %s reached the client (%q)", name, resp.Header.Get(name)), desc)
				return
			}
		}
		if feature != "plain" || len(hop) > 0 || len(supplied) > 0 {
			c.Nontrivial(sfmt("%s|%s|%v|%v|%v|%v", target, hostHdr, hdrs, connTokens, k, method))
			c.Count("requests_nontrivial", 1)
		}
		c.Count("target_"+feature, 1)
		if k.tls {
			c.Count("via_tls", 1)
		}
		if k.net == "tcp6" {
			c.Count("peer_ipv6", 1)
		}
		if i < 3 {
			c.Sample(map[string]any{"sent": string(rb.Bytes()[:min(rb.Len(), 400)]), "backend_request_line": got.line, "pass_host": k.passHost, "tls": k.tls})
		}
	})

	// zoned IPv6 peers: synthetic RemoteAddr on a direct ServeHTTP call, real backend
	c.Cases("zoned", c.N(100, 2000), func(i int, r *rand.Rand) {
		back := backs["tcp4"]
		zone := genZone(r)
		ip := "fe80::" + fmt.Sprintf("%x", 1+r.IntN(65000))
		remote := net.JoinHostPort(ip+"%"+zone, fmt.Sprint(1024+r.IntN(60000)))
		fwd := forward.New(false)
		req := httptest.NewRequest("GET", "http://front.test/z?"+randToken(r, 4), nil)
		req.RemoteAddr = remote
		req.RequestURI = "/z?" + req.URL.RawQuery
		req.URL = &url.URL{Scheme: "http", Host: back.l.Addr().String()}
		before := back.count()
		rec := httptest.NewRecorder()
		fwd.ServeHTTP(rec, req)
		c.Eval()
		if back.count() != before+1 {
			c.Violation("exchange/backend-count", sfmt("zoned peer %s: backend received %d requests (status %d)", remote, back.count()-before, rec.Code), nil)
			return
		}
		got := back.last()
		if g := got.get("X-Real-Ip"); len(g) != 1 || (g[0] != ip && g[0] != ip+"%"+zone) {
			c.Violation("forwarding/X-Real-Ip", sfmt("zoned peer %s: backend saw X-Real-Ip %q, want %q", remote, g, ip), nil)
			return
		}
		xff := got.get("X-Forwarded-For")
		if len(xff) != 1 || !(xff[0] == ip || xff[0] == ip+"%"+zone) {
			c.Violation("forwarding/X-Forwarded-For", sfmt("zoned peer %s: backend saw X-Forwarded-For %q", remote, xff), nil)
			return
		}
		c.Nontrivial("zoned/" + remote)
		c.Count("zoned_peers", 1)
	})
	c.Require("requests_nontrivial", 2)
	c.Require("target_escapes", 1)
	_ = textproto.CanonicalMIMEHeaderKey
}
