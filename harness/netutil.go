package main

import (
	"sync/atomic"
	"net"
	"net/http"
	"net/http/httptest"
	"time"
)

// listenRetry binds a listener, retrying for a while: on a busy machine (tens of thousands of sockets in
// TIME-WAIT) a bind can fail transiently, and that must not decide anything.
func listenRetry(network, addr string) (net.Listener, error) {
	var l net.Listener
	var err error
	for attempt := 0; attempt < 60; attempt++ {
		l, err = net.Listen(network, addr)
		if err == nil {
			return l, nil
		}
		time.Sleep(time.Duration(50+attempt*20) * time.Millisecond)
	}
	return nil, err
}

// newTestServer is httptest.NewServer with a retried bind (httptest panics when it cannot listen).
func newTestServer(h http.Handler) *httptest.Server {
	srv := newUnstartedServer(h, "tcp4", "127.0.0.1:0")
	srv.Start()
	return srv
}

func newUnstartedServer(h http.Handler, network, addr string) *httptest.Server {
	l, err := listenRetry(network, addr)
	if err != nil {
		panic("harness: cannot bind a test server: " + err.Error())
	}
	return &httptest.Server{Listener: l, Config: &http.Server{Handler: h}}
}

// dialRetry connects, retrying transient local failures (ephemeral port exhaustion on a busy machine).
func dialRetry(network, addr string) (net.Conn, error) {
	var c net.Conn
	var err error
	for attempt := 0; attempt < 40; attempt++ {
		c, err = net.DialTimeout(network, addr, 10*time.Second)
		if err == nil {
			return c, nil
		}
		time.Sleep(time.Duration(50+attempt*25) * time.Millisecond)
	}
	return nil, err
}

// swapServer is one real HTTP server per child process whose handler is replaced for every case, so that thousands
// of cases do not bind thousands of listeners.
type swapServer struct {
	srv *httptest.Server
	cur atomic.Pointer[http.Handler]
	URL string
}

func newSwapServer() *swapServer {
	s := &swapServer{}
	s.srv = newTestServer(http.HandlerFunc(func(w http.ResponseWriter, r *http.Request) {
		if h := s.cur.Load(); h != nil {
			(*h).ServeHTTP(w, r)
			return
		}
		w.WriteHeader(http.StatusServiceUnavailable)
	}))
	s.URL = s.srv.URL
	return s
}

func (s *swapServer) set(h http.Handler) { s.cur.Store(&h) }
func (s *swapServer) Close()             { s.srv.Close() }
func (s *swapServer) addr() string       { return s.srv.Listener.Addr().String() }
