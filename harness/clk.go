package main

import (
	"time"

	"github.com/vulcand/oxy/v2/testutils"
)

// Thin wrappers over the verif-tagged hook in /repo/testutils/verif_clock.go.
func freeze(t time.Time)      { testutils.VerifFreeze(t) }
func advance(d time.Duration) { testutils.VerifAdvance(d) }
func now() time.Time          { return testutils.VerifNow() }
func unfreeze()               { testutils.VerifUnfreeze() }

var baseTime = time.Date(2024, 5, 17, 10, 33, 41, 0, time.UTC)
