package main

import (
	"errors"
	"math/rand/v2"
	"net/http"
	"net/http/httptest"
	"net/url"
	"sync"
	"sync/atomic"
	"time"

	"github.com/anishathalye/porcupine"
	"github.com/vulcand/oxy/v2/roundrobin"
)

func init() {
	register(&Property{
		ID:    "C01",
		Level: "exploration",
		Rule: "generated pools (1-8 servers; weight classes zero/one/small/common-factor/prime/very-unequal/all-equal) reached through random prior histories of upsert/re-weight/remove; " +
			"sequential: every window offset of >=3W selections compared with the exact count vector w_i/g; concurrent: K*W calls from P goroutines must give exactly K*w_i/g, and recorded call/return histories must linearize (porcupine) against the periodic sequence; " +
			"the reference weights are the ones the last successful call per server asked for (ServerWeight must agree); a quarter of the pools are administered through a Rebalancer; drained (all-zero) pools must fail every selection, then serve again after a re-weight; handlers behind the balancer edit req.URL in place; every case runs under a watchdog (a blocked balancer call is a violation); " +
			"non-trivial = pool with >=2 positive weights; distinct by (weight vector, prior history, access path)",
		Assumptions: []string{"weights are read back with ServerWeight(); W capped at 20000 per pool", "porcupine v1.3.0 decides linearizability; Unknown (timeout) is inconclusive"},
		Parts: []Part{
			{Name: "seq", Shards: 8, Fn: c01Seq},
			{Name: "conc", Race: true, Shards: 4, Fn: c01Conc},
			{Name: "lin", Race: true, Shards: 4, Fn: c01Lin},
		},
	})
}

func mustURL(s string) *url.URL {
	u, err := url.Parse(s)
	if err != nil {
		panic(err)
	}
	return u
}

func urlKey(u *url.URL) string { return u.Scheme + "|" + u.Host + "|" + u.Path }

func c01Weights(r *rand.Rand) []int {
	n := 1 + r.IntN(8)
	w := make([]int, n)
	switch r.IntN(8) {
	case 0: // all equal
		v := 1 + r.IntN(7)
		for i := range w {
			w[i] = v
		}
	case 1: // common factor
		f := 2 + r.IntN(9)
		for i := range w {
			w[i] = f * (1 + r.IntN(6))
		}
	case 2: // primes
		ps := []int{2, 3, 5, 7, 11, 13, 17, 97, 101}
		for i := range w {
			w[i] = pick(r, ps)
		}
	case 3: // very unequal
		for i := range w {
			w[i] = 1 + r.IntN(3)
		}
		w[r.IntN(n)] = 1 << (6 + r.IntN(7))
	case 4: // with zeros
		for i := range w {
			if r.IntN(2) == 0 {
				w[i] = 1 + r.IntN(9)
			}
		}
	case 5: // powers of 4 (what the rebalancer produces)
		for i := range w {
			w[i] = 1 << (2 * r.IntN(7))
		}
	default:
		for i := range w {
			w[i] = 1 + r.IntN(12)
		}
	}
	return w
}

// c01Build creates a balancer whose final pool has the given weights, reached via a random prior history.
func c01Build(r *rand.Rand, next http.Handler, weights []int, histLen int) (*roundrobin.RoundRobin, []*url.URL, []string, error) {
	return c01BuildOpts(r, next, weights, histLen)
}

// c01Admin is the administrative surface pool changes go through: the balancer itself, or a Rebalancer wrapped around it
// (no traffic passes through that rebalancer, so it never adjusts a weight on its own).
type c01Admin interface {
	UpsertServer(u *url.URL, options ...roundrobin.ServerOption) error
	RemoveServer(u *url.URL) error
}

func c01BuildOpts(r *rand.Rand, next http.Handler, weights []int, histLen int, opts ...roundrobin.LBOption) (*roundrobin.RoundRobin, []*url.URL, []string, error) {
	rrInner, err := roundrobin.New(next, opts...)
	if err != nil {
		return nil, nil, nil, err
	}
	type selector interface {
		NextServer() (*url.URL, error)
	}
	var rr interface {
		c01Admin
		selector
	} = rrInner
	viaRB := false
	c01LastRB = nil
	c01LastRBAdmin = nil
	if histLen > 0 && r.IntN(4) == 0 {
		// (meters that are ready at once and rate every server alike: the rebalancer evaluates the pool on every request it
		// serves and never has a reason to move a weight)
		rb, err := roundrobin.NewRebalancer(rrInner, roundrobin.RebalancerMeter(func() (roundrobin.Meter, error) { return &scriptedMeter{ready: true}, nil }))
		if err != nil {
			return nil, nil, nil, err
		}
		viaRB = true
		c01LastRB = rb
		c01LastRBAdmin = rb
		rr = struct {
			c01Admin
			selector
		}{rb, rrInner}
	}
	urls := make([]*url.URL, len(weights))
	for i := range urls {
		urls[i] = mustURL(sfmt("http://srv%d.test:80%d/p", i, i))
	}
	var hist []string
	present := make([]bool, len(urls)) // which servers the successful calls so far have left in the pool
	extra := []*url.URL{mustURL("http://extra1.test/"), mustURL("http://extra2.test/x")}
	for h := 0; h < histLen; h++ {
		switch r.IntN(6) {
		case 5: // an update whose last option is rejected: the call fails
			i := r.IntN(len(urls))
			if err := rr.UpsertServer(urls[i], roundrobin.Weight(1+r.IntN(9)), roundrobin.Weight(-1)); err == nil {
				return nil, nil, nil, errors.New("UpsertServer with Weight(-1) returned nil")
			}
			hist = append(hist, sfmt("up%d-rejected", i))
		case 0:
			u := pick(r, extra)
			_ = rr.UpsertServer(u, roundrobin.Weight(1+r.IntN(5)))
			hist = append(hist, "up-extra")
		case 1:
			_ = rr.RemoveServer(pick(r, extra))
			hist = append(hist, "rm-extra")
		case 2:
			i := r.IntN(len(urls))
			if rr.UpsertServer(urls[i], roundrobin.Weight(1+r.IntN(9))) == nil {
				present[i] = true
			}
			hist = append(hist, sfmt("up%d", i))
		case 3:
			i := r.IntN(len(urls))
			if rr.RemoveServer(urls[i]) == nil {
				present[i] = false
			}
			hist = append(hist, "rm")
		case 4:
			k := r.IntN(7)
			for j := 0; j < k; j++ {
				_, _ = rr.NextServer()
			}
			hist = append(hist, sfmt("next%d", k))
		}
	}
	for _, e := range extra {
		_ = rr.RemoveServer(e)
	}
	// final configuration, in random order; zero weights must be set by re-weighting an existing server
	for _, i := range r.Perm(len(urls)) {
		w := weights[i]
		if w == 0 {
			if err := rr.UpsertServer(urls[i], roundrobin.Weight(1)); err != nil {
				return nil, nil, nil, err
			}
		}
		// the caller hands over its own url.URL value and goes on using (re-using, editing) it afterwards
		mine := *urls[i]
		if w == 1 && !present[i] && r.IntN(2) == 0 {
			// a server that is not in the pool, registered without any option: it gets the default weight 1
			if err := rr.UpsertServer(&mine); err != nil {
				return nil, nil, nil, err
			}
			hist = append(hist, sfmt("add%d-without-options", i))
		} else if err := rr.UpsertServer(&mine, roundrobin.Weight(w)); err != nil {
			return nil, nil, nil, err
		}
		mine.Host, mine.Path = "scribbled-after-the-call.test", "/scribbled"
		if r.IntN(4) == 0 { // a few selections between the final changes
			_, _ = rr.NextServer()
		}
	}
	if histLen > 0 && r.IntN(4) == 0 {
		// last "change" is a rejected update of an existing server, preceded by some selections
		for k := r.IntN(5); k > 0; k-- {
			_, _ = rr.NextServer()
		}
		i := r.IntN(len(urls))
		_ = rr.UpsertServer(urls[i], roundrobin.Weight(1+r.IntN(9)), roundrobin.Weight(-1))
		hist = append(hist, sfmt("final-up%d-rejected", i))
	}
	if viaRB {
		hist = append(hist, "admin-via-rebalancer")
	}
	// the weights in force are the ones the last successful call per server asked for
	for i, u := range urls {
		if w, ok := rrInner.ServerWeight(u); !ok || w != weights[i] {
			return nil, nil, nil, c01ConfigErr{sfmt("after history %v: ServerWeight(%v) = %d,%v; the last successful UpsertServer for it asked for weight %d", hist, u, w, ok, weights[i])}
		}
	}
	return rrInner, urls, hist, nil
}

// c01LastRB: the rebalancer the last pool was built behind (nil: none); requests may be served through it.
var c01LastRB http.Handler
var c01LastRBAdmin c01Admin

type c01ConfigErr struct{ msg string }

func (e c01ConfigErr) Error() string { return e.msg }

type c01Ref struct {
	keys   []string
	want   map[string]int // w_i/g
	W      int
	posCnt int
}

func c01Reference(rr *roundrobin.RoundRobin, urls []*url.URL) (c01Ref, []int) {
	ref := c01Ref{want: map[string]int{}}
	g := 0
	ws := make([]int, len(urls))
	for i, u := range urls {
		w, ok := rr.ServerWeight(u)
		if !ok {
			w = -1
		}
		ws[i] = w
		if w > 0 {
			g = gcdInt(g, w)
		}
	}
	for i, u := range urls {
		ref.keys = append(ref.keys, urlKey(u))
		if ws[i] > 0 {
			ref.want[urlKey(u)] = ws[i] / g
			ref.W += ws[i] / g
			ref.posCnt++
		}
	}
	return ref, ws
}

// slidingExact checks every window of W consecutive selections.
func slidingExact(seq []string, ref c01Ref) (bad int, msg string) {
	counts := map[string]int{}
	mism := 0
	for k, v := range ref.want {
		if v != 0 {
			mism++
		}
		counts[k] = 0
	}
	upd := func(k string, d int) {
		w, known := ref.want[k]
		before := counts[k] == w
		counts[k] += d
		after := counts[k] == w
		if !known {
			w = 0
			before = counts[k]-d == 0
			after = counts[k] == 0
		}
		if before && !after {
			mism++
		} else if !before && after {
			mism--
		}
	}
	for i, s := range seq {
		if _, ok := ref.want[s]; !ok {
			return i, sfmt("selection %d chose %q which has weight 0 or is not in the pool", i, s)
		}
		upd(s, 1)
		if i >= ref.W {
			upd(seq[i-ref.W], -1)
		}
		if i >= ref.W-1 && mism != 0 {
			return i - ref.W + 1, sfmt("window at offset %d: counts %v, want %v", i-ref.W+1, counts, ref.want)
		}
	}
	return -1, ""
}

func c01Seq(c *Ctx) {
	hung := false
	c.Cases("pool", c.N(2000, 60000), func(i int, r *rand.Rand) {
		if hung {
			return // the first blocked call has been reported; nothing in this process can be trusted to return any more
		}
		// nothing in a case can block except a call into the balancer (no sockets, no channels): a case that does not come
		// back within a minute is a balancer call that never returned (milliseconds are typical)
		if !c.Guard(60*time.Second, func() { c01SeqCase(c, i, r) }) {
			hung = true
			c.Violation("hang", "a call into the balancer (pool change or selection) did not return within 60s: the balancer is blocked, typically a lock that was not released on some path", map[string]any{"case": i})
		}
	})
	c.Require("pools_nontrivial", 2)
}

// c01Episode: a pool served through a rebalancer that has just been through a failure-and-recovery episode of one server
// (scripted meters, frozen clock). Afterwards the clock stands still and all servers are rated alike: after one warm-up
// request nothing is due any more, the pool is not being changed, and every window of selections must be exact for the
// weights then in force.
func c01Episode(c *Ctx, i int, r *rand.Rand) {
	freeze(baseTime.Add(time.Duration(r.Int64N(1e9))))
	defer unfreeze()
	var seen []string
	recording := false
	rr, err := roundrobin.New(http.HandlerFunc(func(w http.ResponseWriter, req *http.Request) {
		if recording {
			seen = append(seen, urlKey(req.URL))
		}
	}))
	if err != nil {
		c.Violation("build", err.Error(), nil)
		return
	}
	backoff := pick(r, []time.Duration{time.Second, 10 * time.Second})
	var meters []*scriptedMeter
	rb, err := roundrobin.NewRebalancer(rr, roundrobin.RebalancerBackoff(backoff), roundrobin.RebalancerMeter(func() (roundrobin.Meter, error) {
		m := &scriptedMeter{ready: true}
		meters = append(meters, m)
		return m, nil
	}))
	if err != nil {
		c.Violation("build", err.Error(), nil)
		return
	}
	n := 2 + r.IntN(4)
	factor := pick(r, []int{1, 2, 2, 3, 10})
	conf := make([]int, n)
	urls := make([]*url.URL, n)
	for k := range urls {
		conf[k] = factor * (1 + r.IntN(4))
		urls[k] = mustURL(sfmt("http://srv%d.test:80%d/p", k, k))
		if err := rb.UpsertServer(urls[k], roundrobin.Weight(conf[k])); err != nil {
			c.Violation("build", err.Error(), nil)
			return
		}
	}
	if len(meters) != n {
		return // the rebalancer did not ask for one meter per server: not this check's concern
	}
	serve := func() { rb.ServeHTTP(httptest.NewRecorder(), httptest.NewRequest("GET", "http://client.test/x", nil)) }
	bad := r.IntN(n)
	for phase, steps := range []int{3 * (1 + r.IntN(4)), 3 * r.IntN(8)} { // a bad spell of 1-4 back-offs, then 0-7 back-offs of recovery
		for q := 0; q < steps; q++ {
			for k, m := range meters {
				rt := 0.0
				if phase == 0 && k == bad {
					rt = 1
				}
				m.set(rt, true)
			}
			advance(backoff/3 + time.Duration(r.Int64N(int64(backoff)/10)))
			serve()
		}
	}
	for _, m := range meters {
		m.set(0, true)
	}
	serve() // warm-up: the one adjustment that may be due
	ref, ws := c01Reference(rr, urls)
	c.Eval()
	if ref.W == 0 || ref.W > 6000 {
		return
	}
	total := 3*ref.W + r.IntN(ref.W+1)
	recording = true
	for q := 0; q < total; q++ {
		serve()
	}
	recording = false
	_, ws2 := c01Reference(rr, urls)
	if sfmt("%v", ws) != sfmt("%v", ws2) || len(seen) != total {
		c.Count("episode_stretches_undecided", 1)
		return
	}
	c.Count("episode_stretches_checked", 1)
	c.Count("selections_checked", int64(total))
	c.Count("windows_checked", int64(total-ref.W+1))
	if off, msg := slidingExact(seen, ref); off >= 0 {
		c.Violation("seq/window", sfmt("pool with configured weights %v served through a rebalancer after a failure episode of server %d (back-off %v); clock standing still, all servers rated alike, weights in force %v (W=%d), unchanged over the stretch: %s", conf, bad, backoff, ws, ref.W, msg), map[string]any{"configured": conf, "weights": ws, "first_selections": seen[:min(len(seen), 40)]})
		return
	}
	if ref.posCnt >= 2 {
		c.Nontrivial(sfmt("episode/%v/%v/%d", conf, ws, bad))
		c.Count("pools_nontrivial", 1)
	}
}

func c01SeqCase(c *Ctx, i int, r *rand.Rand) {
	if i%8 == 6 {
		c01Episode(c, i, r)
		return
	}
	{
		weights := c01Weights(r)
		if i == 0 {
			weights = []int{3, 0, 6, 1}
		}
		if i == 1 {
			weights = []int{4096, 1, 1}
		}
		var seen []string
		var mu sync.Mutex
		editURL := i%3 == 0
		h := http.HandlerFunc(func(w http.ResponseWriter, req *http.Request) {
			mu.Lock()
			seen = append(seen, urlKey(req.URL))
			mu.Unlock()
			if editURL {
				// whatever sits behind the balancer may edit the request it was handed, URL included
				req.URL.Path = "/edited" + req.URL.Path
				req.URL.RawQuery = "edited=1"
				req.URL.Host = "edited." + req.URL.Host
			}
		})
		stickyMode := i%5 == 4
		var lbOpts []roundrobin.LBOption
		if stickyMode {
			lbOpts = append(lbOpts, roundrobin.EnableStickySession(roundrobin.NewStickySession("aff")))
		}
		rr, urls, hist, err := c01BuildOpts(r, h, weights, r.IntN(12), lbOpts...)
		if err != nil {
			key := "build"
			if _, ok := err.(c01ConfigErr); ok {
				key = "config/weight"
			}
			c.Violation(key, "building pool failed: "+err.Error(), map[string]any{"weights": weights})
			return
		}
		ref, ws := c01Reference(rr, urls)
		c.Eval()
		if ref.W == 0 {
			c.Count("all_zero_pools", 1)
			// selections on the drained pool fail; afterwards the pool is given a positive weight again and must serve
			// (run under a watchdog: a selection or pool change that never returns is a violation, not a stuck check)
			type outcome struct{ key, msg string }
			done := make(chan outcome, 1)
			go func() {
				for k := 0; k < 2*len(urls)+3; k++ {
					if u, err := rr.NextServer(); err == nil {
						done <- outcome{"allzero", sfmt("all-zero pool %v: selection %d returned zero-weight server %v", ws, k, u)}
						return
					}
				}
				back := r.IntN(len(urls))
				if err := rr.UpsertServer(urls[back], roundrobin.Weight(1+r.IntN(5))); err != nil {
					done <- outcome{"allzero/restore", "re-weighting a server of a drained pool failed: " + err.Error()}
					return
				}
				for k := 0; k < 5; k++ {
					u, err := rr.NextServer()
					if err != nil || urlKey(u) != urlKey(urls[back]) {
						done <- outcome{"allzero/restore", sfmt("drained pool %v, then server %d re-weighted to a positive weight: selection %d returned %v, %v", ws, back, k, u, err)}
						return
					}
				}
				done <- outcome{}
			}()
			select {
			case o := <-done:
				if o.key != "" {
					c.Violation(o.key, o.msg, map[string]any{"weights": ws, "history": hist})
				} else {
					c.Count("drained_pools_restored", 1)
				}
			case <-time.After(20 * time.Second):
				c.Violation("allzero/hang", sfmt("all-zero pool %v (history %v): a selection or the following re-weight did not return within 20s: the balancer is blocked", ws, hist), map[string]any{"weights": ws, "history": hist})
			}
			return
		}
		if ref.W > 20000 {
			c.Count("pools_over_W_cap", 1)
			return
		}
		viaHTTP := r.IntN(3) == 0 || stickyMode
		// a pool built behind a rebalancer is also served through it (all servers rated alike: weights must not move)
		var front http.Handler = rr
		if c01LastRB != nil && !stickyMode {
			front, viaHTTP = c01LastRB, true
			c.Count("pools_served_through_a_rebalancer", 1)
		}
		total := 3*ref.W + r.IntN(ref.W+1)
		seq := make([]string, 0, total)
		// a quarter of the pools receive administration calls that are *rejected* (and therefore change nothing) in the
		// middle of the measured stretch: the pool "is not being changed", so every window must stay exact across them
		rejecting := i%4 == 2
		rejectedOK := true
		maybeReject := func() {
			if !rejecting || !rejectedOK || r.IntN(7) != 0 {
				return
			}
			var err error
			switch r.IntN(4) {
			case 0:
				err = rr.UpsertServer(urls[r.IntN(len(urls))], roundrobin.Weight(1+r.IntN(9)), roundrobin.Weight(-1))
			case 1:
				err = rr.UpsertServer(mustURL("http://never-added.test:999/p"), roundrobin.Weight(-1))
			case 2:
				err = rr.RemoveServer(mustURL("http://never-added.test:999/p"))
			default:
				err = rr.UpsertServer(nil)
			}
			if err == nil {
				rejectedOK = false // the call was accepted: the pool changed (C02's concern); this stretch is not decided
				return
			}
			c.Count("rejected_calls_inside_measured_stretch", 1)
		}
		if viaHTTP {
			// with sticky sessions: requests that carry a valid affinity cookie are not selections; interleaved with the
			// cookie-less ones they must not disturb the rotation
			var pinned *url.URL
			if stickyMode {
				for k, u := range urls {
					if ws[k] > 0 {
						pinned = u
					}
				}
			}
			for k := 0; k < total; k++ {
				if pinned != nil {
					for q := r.IntN(3); q > 0; q-- {
						req := httptest.NewRequest("GET", "http://client.test/x", nil)
						req.AddCookie(&http.Cookie{Name: "aff", Value: pinned.String()})
						mu.Lock()
						before := len(seen)
						mu.Unlock()
						rr.ServeHTTP(httptest.NewRecorder(), req)
						mu.Lock()
						if len(seen) == before+1 && seen[before] == urlKey(pinned) {
							seen = seen[:before] // served from its cookie: not a selection
							c.Count("interleaved_cookie_requests", 1)
						}
						mu.Unlock()
					}
				}
				maybeReject()
				front.ServeHTTP(httptest.NewRecorder(), httptest.NewRequest("GET", "http://client.test/x", nil))
			}
			seq = seen
			if len(seq) != total {
				c.Violation("serve/count", sfmt("%d requests produced %d handler invocations", total, len(seq)), nil)
				return
			}
		} else {
			for k := 0; k < total; k++ {
				maybeReject()
				u, err := rr.NextServer()
				if err != nil {
					c.Violation("next/error", "NextServer failed on a pool with a positive weight: "+err.Error(), map[string]any{"weights": ws})
					return
				}
				seq = append(seq, urlKey(u))
			}
		}
		c.Count("selections_checked", int64(total))
		c.Count("windows_checked", int64(total-ref.W+1))
		if !rejectedOK {
			c.Count("stretches_undecided_a_rejected_call_was_accepted", 1)
			return
		}
		if rejecting {
			hist = append(hist, "rejected-calls-inside-the-stretch")
		}
		if off, msg := slidingExact(seq, ref); off >= 0 {
			c.Violation("seq/window", sfmt("weights %v (W=%d) after history %v: %s", ws, ref.W, hist, msg), map[string]any{"weights": ws, "history": hist, "via_http": viaHTTP, "first_selections": seq[:min(len(seq), 40)]})
			return
		}
		if ref.posCnt >= 2 {
			c.Nontrivial(sfmt("seq/%v/%v/%v", ws, hist, viaHTTP))
			c.Count("pools_nontrivial", 1)
		}
		if i < 3 {
			c.Sample(map[string]any{"weights": ws, "W": ref.W, "prior_history": hist, "via_http": viaHTTP, "first_selections": seq[:min(len(seq), 12)]})
		}
	}
}

func c01Conc(c *Ctx) {
	hung := false
	c.Cases("conc", c.N(300, 5000), func(i int, r *rand.Rand) {
		if hung {
			return
		}
		if !c.Guard(120*time.Second, func() { c01ConcCase(c, i, r) }) {
			hung = true
			c.Violation("hang", "a call into the balancer (pool change or selection) did not return: the balancer is blocked, typically a lock that was not released on some path", map[string]any{"case": i})
		}
	})
	c.Require("conc_nontrivial", 2)
}

func c01ConcCase(c *Ctx, i int, r *rand.Rand) {
	{
		weights := c01Weights(r)
		viaServe := r.IntN(2) == 0 // selections made by the HTTP handler path or by NextServer()
		rr, urls, hist, err := c01Build(r, http.HandlerFunc(func(w http.ResponseWriter, req *http.Request) { w.Header().Set("X-Routed", urlKey(req.URL)) }), weights, r.IntN(6))
		if err != nil {
			c.Violation("build", err.Error(), nil)
			return
		}
		ref, ws := c01Reference(rr, urls)
		c.Eval()
		if ref.W == 0 || ref.W > 5000 {
			return
		}
		if viaServe {
			c.Count("conc_cases_via_ServeHTTP", 1)
		}
		if adm := c01LastRBAdmin; adm != nil && ref.posCnt >= 2 {
			// two administrators re-configure the pool through the rebalancer at the same time: one keeps re-stating the weight
			// of one server, the other moves another server's weight about and finally back to the configured value; every
			// call succeeds, so afterwards the configured weights are in force
			var stopA atomic.Bool
			var awg sync.WaitGroup
			a, b := -1, -1
			for k := range urls {
				if ws[k] > 0 {
					if a < 0 {
						a = k
					} else if b < 0 {
						b = k
					}
				}
			}
			awg.Add(1)
			go func() {
				defer awg.Done()
				for !stopA.Load() {
					_ = adm.UpsertServer(urls[a], roundrobin.Weight(ws[a]))
				}
			}()
			lost := ""
			for q := 0; q < 300 && lost == ""; q++ {
				for _, want := range []int{ws[b] + 1 + q%3, ws[b]} {
					_ = adm.UpsertServer(urls[b], roundrobin.Weight(want))
					// once the call has returned its weight is in force: the other administrator only ever re-states weights
					if w, _ := rr.ServerWeight(urls[b]); w != want {
						lost = sfmt("call %d asked for weight %d of %v and returned; ServerWeight says %d", 2*q, want, urls[b], w)
						break
					}
				}
			}
			stopA.Store(true)
			awg.Wait()
			if lost != "" {
				c.Violation("config/weight", "two administrators re-configuring through the rebalancer concurrently: "+lost, map[string]any{"weights": ws})
				return
			}
			c.Count("conc_rebalancer_admin_races", 1)
			for _, k := range []int{a, b} {
				if w, ok := rr.ServerWeight(urls[k]); !ok || w != ws[k] {
					c.Violation("config/weight", sfmt("two administrators re-configuring through the rebalancer concurrently (every call returned nil): ServerWeight(%v) = %d,%v, the last call for it asked for %d", urls[k], w, ok, ws[k]), map[string]any{"weights": ws})
					return
				}
			}
		}
		if i%3 == 0 {
			// several callers add the same, not yet known server at once; one removal then takes it out again and the pool is
			// the configured one (a duplicate record left behind would show in the counts below)
			nu := mustURL(sfmt("http://racing-add-%d.test/", i))
			w := 1 + r.IntN(5)
			var awg sync.WaitGroup
			var go4 atomic.Bool
			for g := 0; g < 6; g++ {
				awg.Add(1)
				go func() {
					defer awg.Done()
					for !go4.Load() {
					}
					_ = rr.UpsertServer(nu, roundrobin.Weight(w))
				}()
			}
			go4.Store(true)
			awg.Wait()
			_ = rr.RemoveServer(nu)
			c.Count("conc_racing_adds", 1)
		}
		P := pick(r, []int{2, 4, 8, 16})
		K := 1 + r.IntN(6)
		total := K * ref.W
		// pre-advance by a random offset: any K*W consecutive selections are exact
		for k := r.IntN(ref.W); k > 0; k-- {
			_, _ = rr.NextServer()
		}
		var next atomic.Int64
		counts := make([]map[string]int, P)
		var wg sync.WaitGroup
		start := make(chan struct{})
		var inflight, maxIn atomic.Int64
		for p := 0; p < P; p++ {
			counts[p] = map[string]int{}
			wg.Add(1)
			go func(p int) {
				defer wg.Done()
				<-start
				for next.Add(1) <= int64(total) {
					n := inflight.Add(1)
					for {
						m := maxIn.Load()
						if n <= m || maxIn.CompareAndSwap(m, n) {
							break
						}
					}
					if viaServe && (p%4 != 3) { // most goroutines through ServeHTTP, a few through NextServer at the same time
						rec := httptest.NewRecorder()
						rr.ServeHTTP(rec, httptest.NewRequest("GET", "http://client.test/", nil))
						inflight.Add(-1)
						if k := rec.Header().Get("X-Routed"); k != "" {
							counts[p][k]++
						} else {
							counts[p]["ERR"]++
						}
						continue
					}
					u, err := rr.NextServer()
					inflight.Add(-1)
					if err != nil {
						counts[p]["ERR"]++
						continue
					}
					counts[p][urlKey(u)]++
				}
			}(p)
		}
		close(start)
		wg.Wait()
		sum := map[string]int{}
		for _, m := range counts {
			for k, v := range m {
				sum[k] += v
			}
		}
		c.Max("max_overlapping_callers", maxIn.Load())
		c.Count("concurrent_selections", int64(total))
		ok := len(sum) == len(ref.want)
		for k, v := range ref.want {
			if sum[k] != K*v {
				ok = false
			}
		}
		if !ok {
			c.Violation("conc/counts", sfmt("weights %v: %d goroutines made %d=K*W calls (K=%d); combined counts %v, want K*%v", ws, P, total, K, sum, ref.want), map[string]any{"weights": ws, "history": hist})
			return
		}
		if ref.posCnt >= 2 && maxIn.Load() >= 2 {
			c.Nontrivial(sfmt("conc/%v/%d/%d", ws, P, K))
			c.Count("conc_nontrivial", 1)
		}
		if i < 2 {
			c.Sample(map[string]any{"weights": ws, "goroutines": P, "K": K, "combined_counts": sum})
		}
	}
}

func c01Lin(c *Ctx) {
	hung := false
	c.Cases("lin", c.N(200, 3000), func(i int, r *rand.Rand) {
		if hung {
			return
		}
		if !c.Guard(300*time.Second, func() { c01LinCase(c, i, r) }) { // (includes the linearizability search, capped at 2 minutes)
			hung = true
			c.Violation("hang", "a call into the balancer (pool change or selection) did not return: the balancer is blocked, typically a lock that was not released on some path", map[string]any{"case": i})
		}
	})
	c.Require("lin_nontrivial", 2)
}

func c01LinCase(c *Ctx, i int, r *rand.Rand) {
	{
		weights := c01Weights(r)
		for k := range weights {
			if weights[k] > 40 {
				weights[k] = 1 + weights[k]%7
			}
		}
		// the same deterministic build twice: one balancer to learn the sequence, one to stress
		seedA, seedB := r.Uint64(), r.Uint64()
		build := func() (*roundrobin.RoundRobin, []*url.URL, error) {
			rb := rand.New(rand.NewPCG(seedA, seedB))
			rr, urls, _, err := c01Build(rb, http.NotFoundHandler(), weights, 4)
			return rr, urls, err
		}
		learn, urls, err := build()
		if err != nil {
			return
		}
		ref, ws := c01Reference(learn, urls)
		c.Eval()
		if ref.W == 0 {
			return
		}
		nops := 40 + r.IntN(160)
		seq := make([]string, nops+1)
		for k := range seq {
			u, err := learn.NextServer()
			if err != nil {
				return
			}
			seq[k] = urlKey(u)
		}
		rr, _, _ := build()
		P := pick(r, []int{2, 3, 4, 8})
		var clk atomic.Int64
		ops := make([][]porcupine.Operation, P)
		var wg sync.WaitGroup
		var issued atomic.Int64
		start := make(chan struct{})
		for p := 0; p < P; p++ {
			wg.Add(1)
			go func(p int) {
				defer wg.Done()
				<-start
				for issued.Add(1) <= int64(nops) {
					call := clk.Add(1)
					u, err := rr.NextServer()
					ret := clk.Add(1)
					out := "ERR"
					if err == nil {
						out = urlKey(u)
					}
					ops[p] = append(ops[p], porcupine.Operation{ClientId: p, Input: 0, Call: call, Output: out, Return: ret})
				}
			}(p)
		}
		close(start)
		wg.Wait()
		var all []porcupine.Operation
		overl := 0
		for _, o := range ops {
			all = append(all, o...)
		}
		for a := range all {
			for b := a + 1; b < len(all); b++ {
				if all[a].Call < all[b].Return && all[b].Call < all[a].Return {
					overl++
				}
			}
		}
		model := porcupine.Model{
			Init: func() interface{} { return 0 },
			Step: func(st, in, out interface{}) (bool, interface{}) {
				pos := st.(int)
				if pos >= len(seq) {
					return false, pos
				}
				return out.(string) == seq[pos], pos + 1
			},
		}
		res := porcupine.CheckOperationsTimeout(model, all, 20*time.Second)
		c.Count("lin_histories", 1)
		c.Count("lin_ops", int64(len(all)))
		c.Count("lin_overlapping_pairs", int64(overl))
		switch res {
		case porcupine.Illegal:
			c.Violation("lin/illegal", sfmt("weights %v: history of %d concurrent NextServer calls from %d goroutines is not linearizable w.r.t. the periodic sequence", ws, len(all), P),
				map[string]any{"weights": ws, "sequence": seq[:min(len(seq), 30)]})
		case porcupine.Unknown:
			c.Count("lin_unknown", 1)
			c.Inconclusive("porcupine timed out on a history")
		default:
			if overl > 0 && ref.posCnt >= 2 {
				c.Nontrivial(sfmt("lin/%v/%d/%d", ws, P, nops))
				c.Count("lin_nontrivial", 1)
			}
		}
	}
}
