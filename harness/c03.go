package main

import (
	"strings"
	"sync"
	"sync/atomic"
	"math/big"
	"math/rand/v2"
	"net/http"
	"net/http/httptest"
	"strconv"
	"time"

	"github.com/vulcand/oxy/v2/ratelimit"
	"github.com/vulcand/oxy/v2/utils"
)

func init() {
	register(&Property{
		ID:    "C03",
		Level: "exploration",
		Rule: "part flip: one source whose rate plan changes from request to request (ExtractRates: same period, different average and burst; floods, idle gaps, strict alternation): in every interval admitted <= largest burst + T/(shortest token time) + 1; " +
			"generated rate sets (1-3 periods from 1s..1h incl. fractional seconds, average 1..100, burst 1..5*average) and arrival histories per source on the frozen clock (floods at 10-1000x the rate sustained for many entry lifetimes, idle gaps around the entry TTL and at whole-second boundaries, sub-token trickles, mixes, several sources, amounts 0..burst+1) through TokenLimiter.ServeHTTP; " +
			"oracle = the statement's bound evaluated in exact integer arithmetic for every sub-interval of every source's admission log and every rate; non-trivial = history with >=1 rejection followed by >=1 admission and spanning > 1 entry lifetime; distinct by (rates, arrival script)",
		Assumptions: []string{"frozen library clock (hook)", "only configurations inside the statement's proviso are decided: periods >= 1s, burst <= 5*average, sources <= capacity"},
		Parts: []Part{
			{Name: "bound", Shards: 12, Fn: c03Bound},
			{Name: "conc", Race: true, Shards: 4, Fn: c03Conc},
			{Name: "reconfig", Shards: 8, Fn: c03Reconfig},
			{Name: "flip", Shards: 4, Fn: c03Flip},
		},
	})
}

// hdrExtractor: source from X-Src, amount from X-Amt.
var hdrExtractor = utils.ExtractorFunc(func(req *http.Request) (string, int64, error) {
	a := int64(1)
	if v := req.Header.Get("X-Amt"); v != "" {
		a, _ = strconv.ParseInt(v, 10, 64)
	}
	return req.Header.Get("X-Src"), a, nil
})

type rateSpec struct {
	Period  time.Duration `json:"period"`
	Average int64         `json:"average"`
	Burst   int64         `json:"burst"`
}

func genRates(r *rand.Rand, maxRates int) []rateSpec {
	periods := []time.Duration{time.Second, 1500 * time.Millisecond, 1900 * time.Millisecond, 2 * time.Second, 10 * time.Second, time.Minute, time.Hour}
	n := 1 + r.IntN(maxRates)
	perm := r.Perm(len(periods))
	var out []rateSpec
	for i := 0; i < n; i++ {
		p := periods[perm[i]]
		avg := int64(1 + r.IntN(20))
		if r.IntN(4) == 0 {
			avg = int64(1 + r.IntN(100))
		}
		if r.IntN(10) == 0 && p <= 2*time.Second { // API-gateway style: thousands per second (token times far below a millisecond)
			avg = pick(r, []int64{2500, 5000, 20000, 100000})
		}
		burst := 1 + r.Int64N(5*avg)
		if avg >= 2500 {
			burst = 1 + r.Int64N(50)
		}
		if r.IntN(4) == 0 {
			burst = 5 * avg
		}
		if r.IntN(6) == 0 {
			burst = 1
		}
		out = append(out, rateSpec{p, avg, burst})
	}
	return out
}

func mkRateSet(rs []rateSpec) *ratelimit.RateSet {
	set := ratelimit.NewRateSet()
	for _, x := range rs {
		if err := set.Add(x.Period, x.Average, x.Burst); err != nil {
			panic(err)
		}
	}
	return set
}

func rateTTL(rs []rateSpec) time.Duration {
	var maxP time.Duration
	for _, x := range rs {
		if x.Period > maxP {
			maxP = x.Period
		}
	}
	return time.Duration(int(maxP/time.Second)*10+1) * time.Second
}

type admitEv struct {
	t   int64 // ns since start
	amt int64
}

// checkBound verifies sum(amount over admissions i..j) <= burst + (tj-ti)/(period/average) + 1, the token time period/average taken in whole nanoseconds for all i<=j.
// Exact: period*(Pj - P(i-1)) - average*(tj - ti) <= period*(burst+1).
func checkBound(log []admitEv, rs rateSpec) (ok bool, i0, j0 int, excess string) {
	// period/average is the bucket's token time: a time.Duration, i.e. whole nanoseconds (6 300 000 per hour: 571 428ns).
	// The bound is evaluated with that duration, as the statement's formula reads in Go: burst + T/(period/average) + 1.
	if int64(rs.Period)/rs.Average == 0 {
		return true, 0, 0, "" // more than one token per nanosecond: not decided
	}
	per := big.NewInt(int64(rs.Period) / rs.Average)
	avg := big.NewInt(1)
	limit := new(big.Int).Mul(per, big.NewInt(rs.Burst+1))
	var minV *big.Int // min over i of period*P(i-1) - average*t_i
	minI := 0
	var prefix int64
	for j, e := range log {
		vi := new(big.Int).Sub(new(big.Int).Mul(per, big.NewInt(prefix)), new(big.Int).Mul(avg, big.NewInt(e.t)))
		if minV == nil || vi.Cmp(minV) < 0 {
			minV = vi
			minI = j
		}
		prefix += e.amt
		vj := new(big.Int).Sub(new(big.Int).Mul(per, big.NewInt(prefix)), new(big.Int).Mul(avg, big.NewInt(e.t)))
		d := new(big.Int).Sub(vj, minV)
		if d.Cmp(limit) > 0 {
			ex := new(big.Rat).SetFrac(new(big.Int).Sub(d, limit), per)
			return false, minI, j, ex.FloatString(3)
		}
	}
	return true, 0, 0, ""
}

type admitEvB struct {
	t, amt, b int64 // ns since start, amount, burst in force at that admission
}

// checkBoundB: for all i<=j: sum(amount i..j) <= b_i + (tj-ti)/(period/average) + 1, the token time period/average taken in whole nanoseconds, b_i = burst in force at admission i.
// Exact: [period*P_j - average*t_j] - [period*P_(i-1) - average*t_i + period*b_i] <= period.
func checkBoundB(log []admitEvB, rs rateSpec) (ok bool, i0, j0 int, excess string) {
	if int64(rs.Period)/rs.Average == 0 {
		return true, 0, 0, ""
	}
	per := big.NewInt(int64(rs.Period) / rs.Average) // token time in whole nanoseconds, see checkBound
	avg := big.NewInt(1)
	var minV *big.Int
	minI := 0
	var prefix int64
	for j, e := range log {
		vi := new(big.Int).Sub(new(big.Int).Mul(per, big.NewInt(prefix)), new(big.Int).Mul(avg, big.NewInt(e.t)))
		vi.Add(vi, new(big.Int).Mul(per, big.NewInt(e.b)))
		if minV == nil || vi.Cmp(minV) < 0 {
			minV = vi
			minI = j
		}
		prefix += e.amt
		vj := new(big.Int).Sub(new(big.Int).Mul(per, big.NewInt(prefix)), new(big.Int).Mul(avg, big.NewInt(e.t)))
		d := new(big.Int).Sub(vj, minV)
		if d.Cmp(per) > 0 {
			ex := new(big.Rat).SetFrac(new(big.Int).Sub(d, per), per)
			return false, minI, j, ex.FloatString(3)
		}
	}
	return true, 0, 0, ""
}

type c03Req struct {
	dt  time.Duration
	src int
	amt int64
}

func c03GenHistory(r *rand.Rand, rs []rateSpec, nsrc, nreq int) []c03Req {
	// reference rate: the fastest token time
	tok := time.Duration(1 << 62)
	var minBurst int64 = 1 << 62
	for _, x := range rs {
		if t := time.Duration(int64(x.Period) / x.Average); t < tok {
			tok = t
		}
		if x.Burst < minBurst {
			minBurst = x.Burst
		}
	}
	ttl := rateTTL(rs)
	var out []c03Req
	for len(out) < nreq {
		phase := r.IntN(7)
		plen := 20 + r.IntN(400)
		switch phase {
		case 0, 1: // flood
			div := int64(pick(r, []int{10, 30, 100, 1000}))
			gap := time.Duration(int64(tok) / div)
			if gap <= 0 {
				gap = 1
			}
			plen = int(int64(ttl)/int64(gap)/int64(4+r.IntN(8))) + 50
			if plen > nreq/2 {
				plen = nreq / 2
			}
			for k := 0; k < plen; k++ {
				out = append(out, c03Req{gap, r.IntN(nsrc), c03Amt(r, minBurst)})
			}
		case 2: // idle gaps around the TTL / whole seconds
			for k := 0; k < 1+r.IntN(4); k++ {
				gap := ttl + time.Duration(r.IntN(5)-2)*time.Second + time.Duration(r.Int64N(int64(time.Second)))
				if r.IntN(3) == 0 {
					gap = ttl + time.Duration(r.IntN(3)-1)
				}
				out = append(out, c03Req{gap, r.IntN(nsrc), c03Amt(r, minBurst)})
				for b := 0; b < int(min(minBurst, 40))+2; b++ {
					out = append(out, c03Req{0, out[len(out)-1].src, 1})
				}
			}
		case 3: // sub-token trickle
			for k := 0; k < plen; k++ {
				gap := tok + time.Duration(r.Int64N(int64(tok)/4+1)) - tok/8
				out = append(out, c03Req{gap, r.IntN(nsrc), 1})
			}
		case 4: // align to the next whole second, then burst
			out = append(out, c03Req{-1, r.IntN(nsrc), 1}) // dt<0: align
			for b := 0; b < int(min(minBurst, 40))+3; b++ {
				out = append(out, c03Req{0, out[len(out)-1].src, c03Amt(r, minBurst)})
			}
		default: // random mix
			for k := 0; k < plen; k++ {
				gap := time.Duration(r.Int64N(int64(3*tok) + 1))
				if r.IntN(20) == 0 {
					gap = time.Duration(r.Int64N(int64(ttl)))
				}
				out = append(out, c03Req{gap, r.IntN(nsrc), c03Amt(r, minBurst)})
			}
		}
	}
	return out
}

func c03Amt(r *rand.Rand, minBurst int64) int64 {
	switch r.IntN(10) {
	case 0:
		return minBurst + 1 // over burst: must never be admitted
	case 1:
		return 0
	case 2:
		return minBurst
	case 3, 4:
		return 1 + r.Int64N(minBurst)
	}
	return 1
}

func c03Bound(c *Ctx) {
	c.Cases("hist", c.N(900, 20000), func(i int, r *rand.Rand) {
		rs := genRates(r, 3)
		nsrc := 1 + r.IntN(3)
		nreq := 1500 + r.IntN(2500)
		if !c.Quick() && i%40 == 0 {
			nreq = 50000
		}
		quota := i%6 == 5
		if quota {
			// quota-style configuration: long period, very large average/burst, amounts in the hundreds of thousands
			avg := int64(100000 * (1 + r.IntN(100)))
			rs = []rateSpec{{pick(r, []time.Duration{time.Hour, 24 * time.Hour}), avg, avg * int64(1+r.IntN(5))}}
			c.Count("quota_style_histories", 1)
		}
		if i == 0 { // forced: the R3 witness (1/s burst 5, 10 req/s for 110 s)
			rs = []rateSpec{{time.Second, 1, 5}}
			nsrc = 1
		}
		viaExtract := r.IntN(4) == 0
		start := baseTime.Add(time.Duration(r.Int64N(int64(time.Hour)))).Add(time.Duration(r.Int64N(1e9)))
		freeze(start)
		defer unfreeze()
		var admitted int
		next := http.HandlerFunc(func(w http.ResponseWriter, req *http.Request) { admitted++ })
		opts := []ratelimit.TokenLimiterOption{}
		def := mkRateSet(rs)
		if viaExtract {
			// rates supplied per request through the extractor; the default set is a decoy
			decoy := ratelimit.NewRateSet()
			_ = decoy.Add(time.Second, 1000000, 1000000)
			def = decoy
			opts = append(opts, ratelimit.ExtractRates(ratelimit.RateExtractorFunc(func(*http.Request) (*ratelimit.RateSet, error) { return mkRateSet(rs), nil })))
		}
		capacity := 0
		if r.IntN(3) == 0 { // exactly as many tracked sources as the capacity allows (still inside the proviso)
			capacity = nsrc
			opts = append(opts, ratelimit.Capacity(capacity))
		}
		tl, err := ratelimit.New(next, hdrExtractor, def, opts...)
		if err != nil {
			c.Violation("constructor", err.Error(), nil)
			return
		}
		var hist []c03Req
		if i == 0 {
			for k := 0; k < 1100; k++ {
				hist = append(hist, c03Req{100 * time.Millisecond, 0, 1})
			}
		} else {
			hist = c03GenHistory(r, rs, nsrc, nreq)
			if quota {
				for k := range hist {
					if hist[k].amt > 1 || r.IntN(2) == 0 {
						hist[k].amt = 1 + r.Int64N(rs[0].Burst)
						if r.IntN(10) == 0 {
							hist[k].amt = rs[0].Burst + 1 + r.Int64N(rs[0].Burst)
						}
					}
				}
			}
		}
		logs := make([][]admitEv, nsrc)
		var rejected, admittedAfterReject, overBurstAdmitted int
		sawReject := false
		var minBurst int64 = 1 << 62
		for _, x := range rs {
			if x.Burst < minBurst {
				minBurst = x.Burst
			}
		}
		for _, q := range hist {
			if q.dt < 0 {
				n := now()
				advance(n.Truncate(time.Second).Add(time.Second).Sub(n))
			} else if q.dt > 0 {
				advance(q.dt)
			}
			req := httptest.NewRequest("GET", "http://x.test/", nil)
			req.Header.Set("X-Src", sfmt("s%d", q.src))
			req.Header.Set("X-Amt", strconv.FormatInt(q.amt, 10))
			rec := httptest.NewRecorder()
			before := admitted
			tl.ServeHTTP(rec, req)
			if admitted == before+1 {
				logs[q.src] = append(logs[q.src], admitEv{int64(now().Sub(start)), q.amt})
				if sawReject {
					admittedAfterReject++
				}
				if q.amt > minBurst {
					overBurstAdmitted++
				}
			} else {
				rejected++
				sawReject = true
			}
		}
		c.Eval()
		c.Count("requests", int64(len(hist)))
		c.Count("rejections", int64(rejected))
		span := now().Sub(start)
		desc := map[string]any{"rates": rs, "sources": nsrc, "requests": len(hist), "span": span.String(), "rates_via_extractor": viaExtract, "capacity": capacity}
		if overBurstAdmitted > 0 {
			c.Violation("bound/over-burst-admitted", sfmt("rates %v: %d requests larger than the burst were admitted", rs, overBurstAdmitted), desc)
			return
		}
		for s := 0; s < nsrc; s++ {
			c.Count("admissions", int64(len(logs[s])))
			for _, x := range rs {
				if ok, i0, j0, ex := checkBound(logs[s], x); !ok {
					a, b := logs[s][i0], logs[s][j0]
					var sum int64
					for k := i0; k <= j0; k++ {
						sum += logs[s][k].amt
					}
					T := time.Duration(b.t - a.t)
					key := "bound/exceeded"
					if T > rateTTL(rs)-2*time.Second {
						key = "bound/exceeded-across-entry-lifetime"
					}
					c.Violation(key, sfmt("rates %v source s%d rate %v: admitted %d in the interval [%v,%v] of length %v; bound burst+T/(period/average)+1 (token time in whole nanoseconds) exceeded by %s", rs, s, x, sum, time.Duration(a.t), time.Duration(b.t), T, ex), desc)
					return
				}
				c.Count("intervals_checked_end_points", int64(len(logs[s])))
			}
		}
		if rejected > 0 && admittedAfterReject > 0 && span > rateTTL(rs) {
			c.Nontrivial(sfmt("%v/%d/%x", rs, nsrc, hash64(sfmt("%v", hist[:min(len(hist), 300)]))))
			c.Count("histories_nontrivial", 1)
		}
		if i < 2 {
			c.Sample(desc)
		}
	})
	c.Require("histories_nontrivial", 2)
}

// c03Conc: many goroutines offer requests of ONE source at a frozen instant: whatever the interleaving, the amount
// admitted at that instant is bounded by burst (+1 of slack in the statement), for every rate of the set.
func c03Conc(c *Ctx) {
	c.Cases("conc", c.N(40, 1200), func(i int, r *rand.Rand) {
		rs := genRates(r, 2)
		var minBurst int64 = 1 << 62
		for _, x := range rs {
			if x.Burst < minBurst {
				minBurst = x.Burst
			}
		}
		freeze(baseTime.Add(time.Duration(r.Int64N(1e9))))
		defer unfreeze()
		var admitted atomic.Int64
		var perFresh sync.Map // fresh source name -> *atomic.Int64 (amount admitted)
		tl, err := ratelimit.New(http.HandlerFunc(func(w http.ResponseWriter, req *http.Request) {
			a, _ := strconv.ParseInt(req.Header.Get("X-Amt"), 10, 64)
			if src := req.Header.Get("X-Src"); strings.HasPrefix(src, "fresh-") {
				v, _ := perFresh.LoadOrStore(src, new(atomic.Int64))
				v.(*atomic.Int64).Add(a)
				return
			}
			admitted.Add(a)
		}), hdrExtractor, mkRateSet(rs))
		if err != nil {
			return
		}
		// first contact: sources the limiter has never seen, each met by several requests for the whole burst at the same
		// moment (released from a spinning barrier); a source holds one burst, so at most one of them fits
		for f := 0; f < 24; f++ {
			src := sfmt("fresh-%d", f)
			const P = 6
			var ready, wgf sync.WaitGroup
			var goFlag atomic.Bool
			ready.Add(P)
			for g := 0; g < P; g++ {
				wgf.Add(1)
				go func() {
					defer wgf.Done()
					req := httptest.NewRequest("GET", "http://x.test/", nil)
					req.Header.Set("X-Src", src)
					req.Header.Set("X-Amt", strconv.FormatInt(minBurst, 10))
					ready.Done()
					for !goFlag.Load() {
					}
					tl.ServeHTTP(httptest.NewRecorder(), req)
				}()
			}
			ready.Wait()
			goFlag.Store(true)
			wgf.Wait()
			c.Count("conc_first_contacts", 1)
			var got int64
			if v, ok := perFresh.Load(src); ok {
				got = v.(*atomic.Int64).Load()
			}
			if got > minBurst+1 {
				c.Violation("conc/bound-exceeded", sfmt("rates %v: a source the limiter had never seen was met by %d simultaneous requests for its whole burst %d at one frozen instant; an amount of %d was admitted", rs, P, minBurst, got), map[string]any{"rates": rs})
				return
			}
		}
		G := 16
		per := int(2*minBurst)/G + 20
		rounds := 1 + r.IntN(3)
		for round := 0; round < rounds; round++ {
			before := admitted.Load()
			var wg sync.WaitGroup
			start := make(chan struct{})
			for g := 0; g < G; g++ {
				wg.Add(1)
				go func(g int) {
					defer wg.Done()
					<-start
					for k := 0; k < per; k++ {
						req := httptest.NewRequest("GET", "http://x.test/", nil)
						req.Header.Set("X-Src", "one-source")
						req.Header.Set("X-Amt", "1")
						tl.ServeHTTP(httptest.NewRecorder(), req)
					}
				}(g)
			}
			close(start)
			wg.Wait()
			got := admitted.Load() - before
			c.Count("conc_requests", int64(G*per))
			// at one instant nothing refills: at most what was in the bucket (<= burst), statement slack +1
			if got > minBurst+1 {
				c.Violation("conc/bound-exceeded", sfmt("rates %v: %d goroutines offered %d single-token requests of one source at one frozen instant; %d were admitted, the smallest burst is %d", rs, G, G*per, got, minBurst), map[string]any{"rates": rs})
				return
			}
			if round == 0 && got != minBurst {
				// a fresh source holds exactly its burst: fewer admissions would mean lost tokens (C13's concern); only counted
				c.Count("conc_rounds_with_fewer_than_burst", 1)
			}
			// next round after a partial refill
			advance(time.Duration(r.Int64N(int64(rs[0].Period))))
		}
		c.Eval()
		c.Nontrivial(sfmt("conc/%v/%d", rs, rounds))
		c.Count("conc_nontrivial", 1)
	})
	c.Require("conc_nontrivial", 2)
}

// c03Reconfig: run-time re-configuration. A RateSet is a mutable object (Add overrides the rate of an existing period);
// the limiter consults the effective set on every request, so from the first request after a change the rates in force
// are the new ones: within each epoch the statement's bound must hold for that epoch's rates (a bucket carries at most the
// new burst across the change and less than one token of accrued time, which the +1 of the bound covers).
func c03Reconfig(c *Ctx) {
	c.Cases("reconf", c.N(400, 10000), func(i int, r *rand.Rand) {
		rs := genRates(r, 2)
		nsrc := 1 + r.IntN(3)
		start := baseTime.Add(time.Duration(r.Int64N(int64(time.Hour)))).Add(time.Duration(r.Int64N(1e9)))
		freeze(start)
		defer unfreeze()
		var admitted int
		next := http.HandlerFunc(func(w http.ResponseWriter, req *http.Request) { admitted++ })
		shared := mkRateSet(rs)
		def := shared
		var opts []ratelimit.TokenLimiterOption
		viaExtract := r.IntN(2) == 0
		if viaExtract {
			def = ratelimit.NewRateSet()
			_ = def.Add(time.Second, 1000000, 1000000)
			opts = append(opts, ratelimit.ExtractRates(ratelimit.RateExtractorFunc(func(*http.Request) (*ratelimit.RateSet, error) { return shared, nil })))
		}
		tl, err := ratelimit.New(next, hdrExtractor, def, opts...)
		if err != nil {
			c.Violation("constructor", err.Error(), nil)
			return
		}
		epochs := 2 + r.IntN(3)
		// admissions per source and period across epochs, for as long as the average of that period has not changed
		xlogs := make([]map[time.Duration][]admitEvB, nsrc)
		for s := range xlogs {
			xlogs[s] = map[time.Duration][]admitEvB{}
		}
		var addedLong, oldTTL time.Duration
		var epochRates [][]rateSpec
		nontrivial := 0
		for e := 0; e < epochs; e++ {
			if e > 0 {
				// change the set in place
				rs2 := make([]rateSpec, len(rs))
				burstOnly := r.IntN(2) == 0 // only the bursts change: the refill rate, and with it the accrued budget, carries over
				for k, x := range rs {
					avg := int64(1 + r.IntN(20))
					if r.IntN(2) == 0 && x.Average > 1 { // tighten
						avg = 1 + r.Int64N(x.Average)
					}
					if burstOnly {
						avg = x.Average
					}
					rs2[k] = rateSpec{x.Period, avg, 1 + r.Int64N(5*avg)}
					if avg != x.Average {
						for s := range xlogs {
							delete(xlogs[s], x.Period)
						}
					}
				}
				if burstOnly {
					c.Count("burst_only_reconfigurations", 1)
				}
				if !burstOnly && len(rs2) < 3 && r.IntN(3) == 0 { // a further period
					p := pick(r, []time.Duration{3 * time.Second, 7 * time.Second, 30 * time.Second, 10 * time.Minute, time.Hour})
					avg := int64(1 + r.IntN(10))
					if p >= 10*time.Minute {
						avg = int64(1 + r.IntN(3))
					}
					dup := false
					for _, x := range rs2 {
						dup = dup || x.Period == p
					}
					if !dup {
						oldTTL = rateTTL(rs2)
						addedLong = p
						rs2 = append(rs2, rateSpec{p, avg, 1 + r.Int64N(5*avg)})
					}
				}
				for _, x := range rs2 {
					if err := shared.Add(x.Period, x.Average, x.Burst); err != nil {
						c.Violation("constructor", err.Error(), nil)
						return
					}
				}
				rs = rs2
				c.Count("reconfigurations_in_place", 1)
			}
			epochRates = append(epochRates, rs)
			epochStart := now()
			hist := c03GenHistory(r, rs, nsrc, 600+r.IntN(1200))
			if addedLong > 0 && rateTTL(rs) > oldTTL+2*time.Second {
				// a longer period has just been switched on: one request, then silence for a little longer than the source
				// was remembered under the OLD rates (but far shorter than under the new ones), then a burst
				var mb, lb int64 = 1 << 62, 0
				for _, x := range rs {
					mb = min(mb, x.Burst)
					if x.Period == addedLong {
						lb = x.Burst
					}
				}
				pre := []c03Req{{0, 0, min(mb, 2)}, {oldTTL + time.Second, 0, 1}}
				for k := int64(0); k < min(lb, 60)+2; k++ {
					pre = append(pre, c03Req{0, 0, 1})
				}
				hist = append(pre, hist...)
				c.Count("longer_period_switched_on_then_idle", 1)
			}
			addedLong = 0
			logs := make([][]admitEv, nsrc)
			var minBurst int64 = 1 << 62
			for _, x := range rs {
				if x.Burst < minBurst {
					minBurst = x.Burst
				}
			}
			rejected, admittedN := 0, 0
			for _, q := range hist {
				if q.dt < 0 {
					n := now()
					advance(n.Truncate(time.Second).Add(time.Second).Sub(n))
				} else if q.dt > 0 {
					advance(q.dt)
				}
				req := httptest.NewRequest("GET", "http://x.test/", nil)
				req.Header.Set("X-Src", sfmt("s%d", q.src))
				req.Header.Set("X-Amt", strconv.FormatInt(q.amt, 10))
				before := admitted
				tl.ServeHTTP(httptest.NewRecorder(), req)
				if admitted == before+1 {
					admittedN++
					logs[q.src] = append(logs[q.src], admitEv{int64(now().Sub(epochStart)), q.amt})
					for _, x := range rs {
						xlogs[q.src][x.Period] = append(xlogs[q.src][x.Period], admitEvB{int64(now().Sub(start)), q.amt, x.Burst})
					}
					if q.amt > minBurst {
						c.Violation("reconfig/over-burst-admitted", sfmt("epoch %d, rates in force %v (history of rate sets %v): a request of amount %d, larger than the burst, was admitted", e, rs, epochRates, q.amt), map[string]any{"epoch_rates": epochRates, "via_extractor": viaExtract})
						return
					}
				} else {
					rejected++
				}
			}
			c.Count("requests", int64(len(hist)))
			for s := 0; s < nsrc; s++ {
				for _, x := range rs {
					if ok, i0, j0, ex := checkBound(logs[s], x); !ok {
						a, b := logs[s][i0], logs[s][j0]
						var sum int64
						for k := i0; k <= j0; k++ {
							sum += logs[s][k].amt
						}
						c.Violation("reconfig/bound-exceeded", sfmt("epoch %d after the rate set was changed in place (history of rate sets %v): source s%d rate %v: admitted %d in the interval [%v,%v] of the epoch, length %v; bound burst+T/(period/average)+1 (token time in whole nanoseconds) exceeded by %s", e, epochRates, s, x, sum, time.Duration(a.t), time.Duration(b.t), time.Duration(b.t-a.t), ex),
							map[string]any{"epoch_rates": epochRates, "via_extractor": viaExtract, "sources": nsrc})
						return
					}
					c.Count("intervals_checked_end_points", int64(len(logs[s])))
				}
			}
			// across changes that leave a period's average alone, what a source holds carries over (capped by the new burst):
			// from any admission on, at most the burst in force at that moment plus the refill since then (+1)
			for s := 0; s < nsrc; s++ {
				for _, x := range rs {
					if ok, i0, j0, ex := checkBoundB(xlogs[s][x.Period], x); !ok {
						lg := xlogs[s][x.Period]
						c.Violation("reconfig/bound-exceeded-across-burst-change", sfmt("history of rate sets %v: source s%d, period %v (average %d throughout): from the admission at %v (burst in force %d) to the one at %v the source was admitted more than that burst + the refill in between + 1, by %s: a re-configuration handed it fresh budget", epochRates, s, x.Period, x.Average, time.Duration(lg[i0].t), lg[i0].b, time.Duration(lg[j0].t), ex),
							map[string]any{"epoch_rates": epochRates, "via_extractor": viaExtract, "sources": nsrc})
						return
					}
				}
			}
			if e > 0 && rejected > 0 && admittedN > 0 {
				nontrivial++
			}
		}
		c.Eval()
		if nontrivial > 0 {
			c.Nontrivial(sfmt("reconf/%v/%d/%v", epochRates, nsrc, viaExtract))
			c.Count("reconfig_histories_nontrivial", 1)
		}
		if i < 2 {
			c.Sample(map[string]any{"epoch_rates": epochRates, "sources": nsrc, "via_extractor": viaExtract})
		}
	})
	c.Require("reconfig_histories_nontrivial", 2)
}

// c03Flip: the rate plan of a source changes from request to request (ExtractRates keyed on the endpoint / tier: same period,
// different average and burst). Whatever the order of plans, the source never gets more than the most generous of its plans
// allows: in every interval, admitted <= largest burst + T/(shortest token time) + 1.
func c03Flip(c *Ctx) {
	c.Cases("flip", c.N(300, 8000), func(i int, r *rand.Rand) {
		freeze(baseTime.Add(time.Duration(r.Int64N(1e9))))
		defer unfreeze()
		period := pick(r, []time.Duration{time.Second, time.Second, 10 * time.Second, time.Minute})
		nPlans := 2 + r.IntN(2)
		plans := make([]rateSpec, nPlans)
		loosest := rateSpec{Period: period}
		for k := range plans {
			avg := int64(1 + r.IntN(30))
			if k > 0 && r.IntN(2) == 0 {
				avg = plans[0].Average + int64(r.IntN(3)) - 1 // nearly the same plan
				if avg < 1 {
					avg = 1
				}
			}
			plans[k] = rateSpec{period, avg, avg + r.Int64N(4*avg+1)}
			if avg > loosest.Average {
				loosest.Average = avg
			}
			if plans[k].Burst > loosest.Burst {
				loosest.Burst = plans[k].Burst
			}
		}
		sets := make([]*ratelimit.RateSet, nPlans)
		for k := range plans {
			sets[k] = mkRateSet([]rateSpec{plans[k]})
		}
		admitted := 0
		tl, err := ratelimit.New(http.HandlerFunc(func(http.ResponseWriter, *http.Request) { admitted++ }), hdrExtractor, mkRateSet([]rateSpec{{time.Second, 1, 1}}),
			ratelimit.ExtractRates(ratelimit.RateExtractorFunc(func(req *http.Request) (*ratelimit.RateSet, error) {
				k, _ := strconv.Atoi(req.Header.Get("X-Plan"))
				return sets[k], nil
			})))
		if err != nil {
			c.Violation("constructor", err.Error(), nil)
			return
		}
		tau := time.Duration(int64(period) / loosest.Average)
		var log []admitEv
		var t time.Duration
		nreq := 400 + r.IntN(c.N(1200, 4000))
		mode, left := 0, 0
		rejected := 0
		for q := 0; q < nreq; q++ {
			if left == 0 {
				mode, left = r.IntN(4), 20+r.IntN(200)
			}
			left--
			var step time.Duration
			switch mode {
			case 0: // flood, many requests per token time
				step = time.Duration(r.Int64N(int64(tau)/8 + 1))
			case 1: // about the rate
				step = time.Duration(r.Int64N(2*int64(tau) + 1))
			case 2: // idle gaps of a few token times
				step = time.Duration(r.Int64N(6*int64(tau) + 1))
			default: // strict alternation at a fixed pace of a token time or two
				step = tau + time.Duration(r.Int64N(int64(tau)+1))
			}
			advance(step)
			t += step
			plan := r.IntN(nPlans)
			if mode == 3 {
				plan = q % nPlans
			}
			amt := int64(1)
			if r.IntN(10) == 0 {
				amt = 1 + r.Int64N(plans[plan].Burst)
			}
			req := httptest.NewRequest("GET", "http://x.test/", nil)
			req.Header.Set("X-Src", "tenant")
			req.Header.Set("X-Plan", strconv.Itoa(plan))
			req.Header.Set("X-Amt", strconv.FormatInt(amt, 10))
			before := admitted
			tl.ServeHTTP(httptest.NewRecorder(), req)
			if admitted == before+1 {
				log = append(log, admitEv{int64(t), amt})
			} else {
				rejected++
			}
		}
		c.Eval()
		c.Count("flip_requests", int64(nreq))
		desc := map[string]any{"plans": plans, "requests": nreq, "span": t.String()}
		if ok, a, b, ex := checkBound(log, loosest); !ok {
			var sum int64
			for _, e := range log[a : b+1] {
				sum += e.amt
			}
			c.Violation("flip/bound-exceeded", sfmt("one source limited under per-request plans %v (same period): admitted %d in the interval [%v,%v] of length %v; even the most generous plan (%d per %v, burst %d) allows burst+T/(period/average)+1, exceeded by %s", plans, sum, time.Duration(log[a].t), time.Duration(log[b].t), time.Duration(log[b].t-log[a].t), loosest.Average, period, loosest.Burst, ex), desc)
			return
		}
		if rejected > 0 && len(log) > int(loosest.Burst) {
			c.Nontrivial(sfmt("flip/%v/%d", plans, nreq))
			c.Count("flip_histories_nontrivial", 1)
		}
	})
	c.Require("flip_histories_nontrivial", 2)
}
