package main

import (
	"math/rand/v2"
	"time"

	"github.com/vulcand/oxy/v2/memmetrics"
)

func init() {
	register(&Property{
		ID:    "C17",
		Level: "exploration",
		Rule: "generated histories of Inc/Count/Clone/Reset/advance on the frozen clock for N in 1..12 and 9 resolutions (whole and fractional), start instants unaligned; oracle = exact sums of the harness's own increment log over ages <= (N-1)r and < N r; " +
			"clones are kept, incremented and read later, and merged back with Append (amount read back at the same instant); " +
			"a history is non-trivial when some read saw an increment aged out and some read had a positive lower bound; distinct by (N, r, operation script)",
		Assumptions: []string{"frozen library clock (hook); the interval between the two Now() calls inside one Inc cannot be split without a hook inside Inc"},
		Parts: []Part{
			{Name: "counter", Shards: 8, Fn: c17Counter},
			{Name: "ratio", Shards: 4, Fn: c17Ratio},
		},
	})
}

var c17Res = []time.Duration{time.Second, 1500 * time.Millisecond, 2 * time.Second, 2500 * time.Millisecond, 3 * time.Second, 7 * time.Second, 10 * time.Second, time.Minute, 1001 * time.Millisecond}

type c17Inc struct {
	at time.Time
	v  int64
}

func c17Bounds(log []c17Inc, t time.Time, n int, res time.Duration) (lo, hi int64) {
	for _, e := range log {
		age := t.Sub(e.at)
		if age <= time.Duration(n-1)*res {
			lo += e.v
		}
		if age < time.Duration(n)*res {
			hi += e.v
		}
	}
	return
}

func c17Step(r *rand.Rand, n int, res time.Duration) time.Duration {
	w := time.Duration(n) * res
	switch r.IntN(14) {
	case 0:
		return 0
	case 1:
		return 1
	case 2:
		return time.Duration(1 + r.Int64N(int64(res/2)))
	case 3:
		return res
	case 4:
		return res - 1
	case 5:
		return res + 1
	case 6:
		return time.Duration(1+r.IntN(n+2)) * res
	case 7:
		return w - 1
	case 8:
		return w
	case 9:
		return w + 1
	case 10:
		return w - res + time.Duration(r.IntN(3)-1)
	case 11:
		return time.Duration(2+r.IntN(5))*w + time.Duration(r.Int64N(int64(res)))
	}
	return time.Duration(r.Int64N(int64(2 * res)))
}

func c17Counter(c *Ctx) {
	c.Cases("hist", c.N(4000, 300000), func(i int, r *rand.Rand) {
		n := 1 + r.IntN(12)
		if r.IntN(10) == 0 { // many buckets (the constructor accepts any count)
			n = pick(r, []int{63, 64, 65, 100, 120, 130})
		}
		res := pick(r, c17Res)
		start := baseTime.Add(time.Duration(r.Int64N(int64(400 * 24 * time.Hour)))).Add(time.Duration(r.Int64N(1e9)))
		freeze(start)
		defer unfreeze()
		rc, err := memmetrics.NewCounter(n, res)
		if err != nil {
			c.Violation("constructor", sfmt("NewCounter(%d,%v): %v", n, res, err), nil)
			return
		}
		var log []c17Inc
		// clones live on: each has its own copy of the history at the moment it was made
		type c17Clone struct {
			rc  *memmetrics.RollingCounter
			log []c17Inc
		}
		var clones []*c17Clone
		// a second counter with the same number of buckets but another resolution (metrics of another component merged in)
		res2 := pick(r, c17Res)
		other, _ := memmetrics.NewCounter(n, res2)
		var otherLog []c17Inc
		steps := 50 + r.IntN(c.N(150, 450))
		script := make([]string, 0, steps)
		agedOut, lowerPos := false, false
		reads := 0
		for s := 0; s < steps; s++ {
			switch op := r.IntN(10); {
			case op < 3:
				v := int64(1 + r.IntN(5))
				rc.Inc(int(v))
				log = append(log, c17Inc{now(), v})
				script = append(script, sfmt("inc%d", v))
			case op < 6:
				d := c17Step(r, n, res)
				advance(d)
				script = append(script, sfmt("adv%d", int64(d)))
			case op < 9:
				var got int64
				kind := "count"
				if r.IntN(3) == 0 {
					kind = "clone"
					got = rc.Clone().Count()
				} else {
					got = rc.Count()
				}
				t := now()
				lo, hi := c17Bounds(log, t, n, res)
				var total int64
				for _, e := range log {
					total += e.v
				}
				reads++
				c.Count("reads", 1)
				if hi < total {
					agedOut = true
				}
				if lo > 0 {
					lowerPos = true
				}
				if lo < hi {
					c.Count("reads_with_slack", 1)
				}
				script = append(script, kind)
				if got < lo || got > hi {
					key := "window/res-1s"
					if res != time.Second {
						key = "window/res-not-1s"
					}
					which := "lost recent increments"
					if got > hi {
						which = "kept increments older than the window"
					}
					c.Violation(key, sfmt("N=%d r=%v: %s() = %d outside [%d,%d] (%s) at step %d", n, res, kind, got, lo, hi, which, s),
						map[string]any{"buckets": n, "resolution": res.String(), "start": start.Format(time.RFC3339Nano), "script": script})
					return
				}
			default:
				switch r.IntN(6) {
				case 4:
					{
						v := int64(1 + r.IntN(5))
						other.Inc(int(v))
						otherLog = append(otherLog, c17Inc{now(), v})
						script = append(script, sfmt("other-inc%d", v))
					}
				case 5:
					{
						if err := rc.Append(other); err != nil {
							// counters of different geometry may be refused; then nothing may have been added
							script = append(script, "append-other-refused")
							break
						}
						amt := other.Count()
						lo, hi := c17Bounds(otherLog, now(), n, res2)
						if amt < lo || amt > hi {
							c.Violation("window/other", sfmt("N=%d r=%v: the second counter reports Count() = %d outside [%d,%d] of its own history at step %d", n, res2, amt, lo, hi, s),
								map[string]any{"buckets": n, "resolution": res2.String(), "script": script})
							return
						}
						if amt > 0 {
							log = append(log, c17Inc{now(), amt})
						}
						script = append(script, sfmt("append-other(%v,%d)", res2, amt))
						c.Count("other_resolution_appends", 1)
					}
				case 0:
					rc.Reset()
					log = log[:0]
					script = append(script, "reset")
				case 1:
					if len(clones) < 3 {
						clones = append(clones, &c17Clone{rc.Clone(), append([]c17Inc(nil), log...)})
						script = append(script, "keep-clone")
					}
				case 2, 3:
					if len(clones) > 0 {
						cl := clones[r.IntN(len(clones))]
						if r.IntN(4) == 0 {
							// a snapshot kept since earlier is merged into the live counter: what is added now is what the
							// snapshot counts now (read back right after the merge, at the same instant)
							if err := rc.Append(cl.rc); err != nil {
								c.Violation("append/error", err.Error(), nil)
								return
							}
							amt := cl.rc.Count()
							lo, hi := c17Bounds(cl.log, now(), n, res)
							if amt < lo || amt > hi {
								c.Violation("window/clone", sfmt("N=%d r=%v: a clone kept since earlier reports Count() = %d outside [%d,%d] of its own history at step %d", n, res, amt, lo, hi, s),
									map[string]any{"buckets": n, "resolution": res.String(), "script": script})
								return
							}
							if amt > 0 {
								log = append(log, c17Inc{now(), amt})
							}
							script = append(script, sfmt("append-clone(%d)", amt))
							c.Count("clone_appends", 1)
						} else if r.IntN(3) == 0 {
							v := int64(1 + r.IntN(5))
							cl.rc.Inc(int(v))
							cl.log = append(cl.log, c17Inc{now(), v})
							script = append(script, sfmt("clone-inc%d", v))
						} else {
							got := cl.rc.Count()
							lo, hi := c17Bounds(cl.log, now(), n, res)
							c.Count("clone_reads", 1)
							script = append(script, "clone-count")
							if got < lo || got > hi {
								c.Violation("window/clone", sfmt("N=%d r=%v: a clone kept since earlier reports Count() = %d outside [%d,%d] of its own history at step %d", n, res, got, lo, hi, s),
									map[string]any{"buckets": n, "resolution": res.String(), "script": script})
								return
							}
						}
					}
				}
			}
		}
		c.Eval()
		if agedOut && lowerPos {
			c.Nontrivial(sfmt("%d/%v/%x", n, res, hash64(sfmt("%v", script))))
			c.Count("histories_nontrivial", 1)
		}
		if i < 2 {
			c.Sample(map[string]any{"buckets": n, "resolution": res.String(), "script_prefix": script[:min(len(script), 25)], "reads": reads})
		}
	})
	c.Require("histories_nontrivial", 2)
}

func c17Ratio(c *Ctx) {
	c.Cases("ratio", c.N(2000, 100000), func(i int, r *rand.Rand) {
		n := 1 + r.IntN(12)
		if r.IntN(10) == 0 { // many buckets (the constructor accepts any count)
			n = pick(r, []int{63, 64, 65, 100, 120, 130})
		}
		res := pick(r, c17Res)
		start := baseTime.Add(time.Duration(r.Int64N(int64(400 * 24 * time.Hour)))).Add(time.Duration(r.Int64N(1e9)))
		freeze(start)
		defer unfreeze()
		rc, err := memmetrics.NewRatioCounter(n, res)
		if err != nil {
			c.Violation("constructor", sfmt("NewRatioCounter(%d,%v): %v", n, res, err), nil)
			return
		}
		if got := rc.Ratio(); got != 0 {
			c.Violation("ratio/empty", sfmt("fresh ratio counter reports %v", got), nil)
		}
		var la, lb []c17Inc
		steps := 40 + r.IntN(200)
		var script []string
		sawFrac, sawZeroAfter := false, false
		for s := 0; s < steps; s++ {
			switch op := r.IntN(10); {
			case op < 2:
				v := int64(1 + r.IntN(4))
				rc.IncA(int(v))
				la = append(la, c17Inc{now(), v})
				script = append(script, sfmt("a%d", v))
			case op < 4:
				v := int64(1 + r.IntN(4))
				rc.IncB(int(v))
				lb = append(lb, c17Inc{now(), v})
				script = append(script, sfmt("b%d", v))
			case op < 7:
				d := c17Step(r, n, res)
				advance(d)
				script = append(script, sfmt("adv%d", int64(d)))
			default:
				ratio := rc.Ratio()
				a, b := rc.CountA(), rc.CountB()
				t := now()
				alo, ahi := c17Bounds(la, t, n, res)
				blo, bhi := c17Bounds(lb, t, n, res)
				c.Count("ratio_reads", 1)
				script = append(script, "ratio")
				key := "ratio/res-1s"
				if res != time.Second {
					key = "ratio/res-not-1s"
				}
				if a < alo || a > ahi || b < blo || b > bhi {
					c.Violation(key, sfmt("N=%d r=%v: CountA=%d in [%d,%d]? CountB=%d in [%d,%d]?", n, res, a, alo, ahi, b, blo, bhi),
						map[string]any{"buckets": n, "resolution": res.String(), "script": script})
					return
				}
				want := 0.0
				if a+b != 0 {
					want = float64(a) / float64(a+b)
				}
				if ratio != want {
					c.Violation("ratio/value", sfmt("Ratio()=%v but counts at the same instant are a=%d b=%d (want %v)", ratio, a, b, want), map[string]any{"script": script})
					return
				}
				if a > 0 && b > 0 {
					sawFrac = true
				}
				if a+b == 0 && len(la)+len(lb) > 0 {
					sawZeroAfter = true
				}
			}
		}
		c.Eval()
		if sawFrac {
			c.Nontrivial(sfmt("ratio/%d/%v/%x", n, res, hash64(sfmt("%v", script))))
			c.Count("ratio_histories_nontrivial", 1)
		}
		if sawZeroAfter {
			c.Count("ratio_returned_to_empty", 1)
		}
	})
	c.Require("ratio_histories_nontrivial", 2)
}
