package main

import (
	"bufio"
	"bytes"
	"context"
	"fmt"
	"io"
	"math/rand/v2"
	"net"
	"net/http"
	"net/http/httptest"
	"net/url"
	"strings"
	"sync"
	"sync/atomic"
	"syscall"
	"time"

	"github.com/vulcand/oxy/v2/cbreaker"
	"github.com/vulcand/oxy/v2/forward"
	"github.com/vulcand/oxy/v2/roundrobin"
	"github.com/vulcand/oxy/v2/utils"
)

func init() {
	register(&Property{
		ID:    "C16",
		Level: "fault_enumeration",
		Rule: "scripted raw-TCP backend whose bytes the harness knows, behind forward.New wrapped in NewStateListener and a status-recording writer under a real http.Server; response shapes: statuses 200-599, 0-10 headers, bodies 0..2MB, Content-Length or chunked with chunk patterns; fault kinds x positions: connection refused, close / RST at {accept, after the request was read, mid-head, after the head, mid-body at byte k, before the last chunk}, garbage head, stall beyond ResponseHeaderTimeout, stall in the middle of the response head detected by an idle deadline on the backend connection, client cancel before the head and mid-body; part oddrequests: CONNECT in authority form (IP literals, names), absolute-form targets and several Connection lines naming forwarding headers over raw TCP must each get a complete response head with paired listener events; a request whose context is already cancelled when it reaches the listener; " +
			"further shapes: 103 Early Hints first, statuses 600-999, head-first streams (the backend waits until the client holds the head), a stall in the middle of the head detected by an idle deadline on the backend connection (504); a third of the fault-free/refused/closed cases run with the forwarder behind a never-tripping circuit breaker or a rebalanced round-robin; " +
			"expected client view and status mapping computed from the script (502 when no response byte was received, 504 on header timeout, 499 recorded for a cancelled client, 500 or 502 for a damaged head, the head plus a prefix of the body and never extra bytes for a failure after the head); every 'connected' must be followed by exactly one 'disconnected'; a probe request must succeed after each fault; non-trivial = case with a fault or a body >= 64kB or chunked framing; distinct by (fault kind, position, response shape)",
		Assumptions: []string{"hang watchdog of 60s per request (here a hang is a violation, by the statement)", "ResponseHeaderTimeout 150ms on a forwarder used only for the stall fault, idle read deadline 300ms on a forwarder used only for the stall-mid-head fault; every other case runs with generous timeouts"},
		Parts: []Part{{Name: "relay", Shards: 12, Fn: c16Relay},
			{Name: "concrelay", Race: true, Shards: 2, Fn: c16ConcRelay},
			{Name: "manystreams", Shards: 1, Fn: c16ManyStreams},
			{Name: "oddrequests", Shards: 2, Fn: c16OddRequests}},
	})
}

type c16Plan struct {
	Fault     string `json:"fault"` // none | refuse | close-accept | close-after-request | rst-after-request | cut-head | garbage-head | cut-body | cut-before-last-chunk | stall | cancel-before-head | cancel-mid-body
	Status    int    `json:"status"`
	NHeaders  int    `json:"n_headers"`
	BodyLen   int    `json:"body_len"`
	Chunked   bool   `json:"chunked"`
	ChunkSize int    `json:"chunk_size"`
	CutAt     int    `json:"cut_at"`
	RST       bool   `json:"rst"`
	Pauses    int    `json:"pauses"`                // fault none: number of pauses while the response is being written
	Early     bool   `json:"early_hints,omitempty"` // the backend sends 103 Early Hints before its response (or before it fails: close/rst-after-request, stall)
	Behind    string `json:"behind,omitempty"`      // the forwarder sits behind another oxy middleware: "" | breaker | rebalancer
	HeadFirst bool   `json:"head_first,omitempty"`  // fault none, chunked: the backend sends its head and waits until the client has it
	// the routing step (req.URL = backend) sits between the state listener and the forwarder, on the same request object
	RouteInside bool `json:"route_inside_listener,omitempty"`
	// a middleware in front detached the request from the server's cancellation (context.WithoutCancel): the forwarder
	// then learns about a departed client through http.CloseNotifier only
	NoCancel bool `json:"context_without_cancel,omitempty"`
}

type c16Backend struct {
	l    net.Listener
	plan c16Plan
	hdrs [][2]string
	body []byte
	head []byte
	wg   sync.WaitGroup
	// head-first streaming (server-sent events, long polling): signalled by the client once it holds the response head
	headSeen    chan struct{}
	headDelayed atomic.Bool
}

func (b *c16Backend) wire() []byte {
	var w bytes.Buffer
	w.Write(b.head)
	if b.plan.Status == 204 || b.plan.Status == 304 {
		return w.Bytes()
	}
	if b.plan.Chunked {
		cs := b.plan.ChunkSize
		if cs <= 0 {
			cs = len(b.body) + 1
		}
		for off := 0; off < len(b.body); off += cs {
			end := min(off+cs, len(b.body))
			fmt.Fprintf(&w, "%x\r\n", end-off)
			w.Write(b.body[off:end])
			w.WriteString("\r\n")
		}
		w.WriteString("0\r\n\r\n")
	} else {
		w.Write(b.body)
	}
	return w.Bytes()
}

func closeConn(c net.Conn, rst bool) {
	if tc, ok := c.(*net.TCPConn); ok && rst {
		_ = tc.SetLinger(0)
	}
	_ = c.Close()
}

func (b *c16Backend) serve() {
	for {
		conn, err := b.l.Accept()
		if err != nil {
			return
		}
		b.wg.Add(1)
		go func() {
			defer b.wg.Done()
			p := b.plan
			_ = conn.SetDeadline(time.Now().Add(30 * time.Second))
			if p.Fault == "close-accept" {
				closeConn(conn, p.RST)
				return
			}
			br := bufio.NewReader(conn)
			if _, err := readRawReq(br); err != nil {
				conn.Close()
				return
			}
			if p.Early && p.Fault != "none" {
				// an interim response first; the failure comes before the (final) response
				_, _ = conn.Write([]byte("HTTP/1.1 103 Early Hints\r\nLink: </style.css>; rel=preload\r\n\r\n"))
			}
			switch p.Fault {
			case "close-after-request", "rst-after-request":
				closeConn(conn, p.Fault == "rst-after-request" || p.RST)
				return
			case "stall", "cancel-before-head":
				// hold the connection without answering until the peer goes away
				buf := make([]byte, 1)
				_ = conn.SetReadDeadline(time.Now().Add(20 * time.Second))
				_, _ = br.Read(buf)
				conn.Close()
				return
			case "garbage-head":
				_, _ = conn.Write([]byte("\x00\x01garbage that is not HTTP\r\n\r\n"))
				closeConn(conn, false)
				return
			}
			full := b.wire()
			switch p.Fault {
			case "stall-mid-head":
				// the beginning of the response head, then silence until the peer goes away
				// (whole lines only: net/textproto turns a timeout in the middle of a line into a "malformed header" error,
				// which no longer carries the timeout and is outside what the forwarder can classify)
				var ends []int
				for k := 0; k+1 < len(b.head)-2; k++ {
					if b.head[k] == '\r' && b.head[k+1] == '\n' {
						ends = append(ends, k+2)
					}
				}
				cutAt := ends[p.CutAt%len(ends)]
				_, _ = conn.Write(full[:cutAt])
				buf := make([]byte, 1)
				_ = conn.SetReadDeadline(time.Now().Add(20 * time.Second))
				_, _ = br.Read(buf)
				conn.Close()
				return
			case "cut-head":
				_, _ = conn.Write(full[:min(p.CutAt, len(b.head)-1)])
				closeConn(conn, p.RST)
				return
			case "cut-body", "cut-before-last-chunk":
				cut := len(b.head) + p.CutAt
				if p.Fault == "cut-before-last-chunk" {
					cut = len(full) - 5
				}
				cut = max(len(b.head), min(cut, len(full)-1))
				_, _ = conn.Write(full[:cut])
				// give the proxy a moment to relay what was sent, then fail
				time.Sleep(20 * time.Millisecond)
				closeConn(conn, p.RST)
				return
			case "cancel-mid-body":
				half := len(b.head) + len(b.body)/2
				_, _ = conn.Write(full[:min(half, len(full))])
				buf := make([]byte, 1)
				_ = conn.SetReadDeadline(time.Now().Add(5 * time.Second))
				_, _ = br.Read(buf)
				conn.Close()
				return
			}
			if p.Early {
				_, _ = conn.Write([]byte("HTTP/1.1 103 Early Hints\r\nLink: </style.css>; rel=preload\r\n\r\n"))
			}
			if p.HeadFirst {
				_, _ = conn.Write(b.head)
				full = full[len(b.head):]
				select {
				case <-b.headSeen:
				case <-time.After(20 * time.Second):
					b.headDelayed.Store(true)
				}
			}
			if p.Pauses > 0 {
				// flush pattern: the response is written in pieces with pauses in between
				step := max(1, len(full)/(p.Pauses+1))
				for off := 0; off < len(full); off += step {
					_, _ = conn.Write(full[off:min(off+step, len(full))])
					time.Sleep(time.Duration(200+off%700) * time.Microsecond)
				}
			} else {
				_, _ = conn.Write(full)
			}
			// keep-alive is not offered: one exchange per connection keeps the script exact
			closeConn(conn, false)
		}()
	}
}

func newC16Backend(r *rand.Rand, p c16Plan, seed uint64) (*c16Backend, error) {
	l, err := listenRetry("tcp4", "127.0.0.1:0")
	if err != nil {
		return nil, err
	}
	b := &c16Backend{l: l, plan: p, headSeen: make(chan struct{})}
	b.body = detBody(p.BodyLen, seed)
	if p.Status == 204 || p.Status == 304 {
		b.body = nil
	}
	var h bytes.Buffer
	fmt.Fprintf(&h, "HTTP/1.1 %d %s\r\n", p.Status, "Scripted")
	for k := 0; k < p.NHeaders; k++ {
		name := pick(r, []string{"X-Backend", "Etag", "Cache-Control", "X-Multi", "Set-Cookie", "Content-Language", "X-Trace", "Vary", "Location", "Content-Type"})
		val := sfmt("v%d-%s", k, randToken(r, r.IntN(10)))
		b.hdrs = append(b.hdrs, [2]string{name, val})
		fmt.Fprintf(&h, "%s: %s\r\n", name, val)
	}
	h.WriteString("Connection: close\r\n")
	if p.Status != 204 && p.Status != 304 {
		if p.Chunked {
			h.WriteString("Transfer-Encoding: chunked\r\n")
		} else {
			fmt.Fprintf(&h, "Content-Length: %d\r\n", len(b.body))
		}
	}
	h.WriteString("\r\n")
	b.head = h.Bytes()
	if p.Fault == "refuse" {
		// a bound but not listening socket: connections are refused and nobody else can take the port meanwhile
		l.Close()
		addr, release, err := boundNotListening()
		if err != nil {
			return nil, err
		}
		b.l = &refusedListener{addr: addr, release: release}
		return b, nil
	}
	go b.serve()
	return b, nil
}

type statusRec struct {
	http.ResponseWriter
	mu   *sync.Mutex
	code *int
}

func (s *statusRec) WriteHeader(c int) {
	s.mu.Lock()
	if *s.code == 0 {
		*s.code = c
	}
	s.mu.Unlock()
	s.ResponseWriter.WriteHeader(c)
}
// CloseNotify: the server's writer can tell when the client has gone away; wrappers pass that on.
func (s *statusRec) CloseNotify() <-chan bool {
	if cn, ok := s.ResponseWriter.(http.CloseNotifier); ok {
		return cn.CloseNotify()
	}
	return make(chan bool)
}

func (s *statusRec) Flush() {
	if f, ok := s.ResponseWriter.(http.Flusher); ok {
		f.Flush()
	}
}

func c16Relay(c *Ctx) {
	type result struct {
		code   int
		events []int
		errs   []string
	}
	var mu sync.Mutex
	results := map[string]*result{}
	doneCh := map[string]chan struct{}{}
	// two forwarders: the short response-header timeout is used only for the "stall" fault; every other case gets a
	// generous one so that a loaded machine cannot turn a slow but correct exchange into a 504
	fwd := forward.New(false)
	fwd.Transport = &http.Transport{ResponseHeaderTimeout: 45 * time.Second, DisableKeepAlives: true, MaxIdleConns: -1}
	fwdStall := forward.New(false)
	fwdStall.Transport = &http.Transport{ResponseHeaderTimeout: 150 * time.Millisecond, DisableKeepAlives: true, MaxIdleConns: -1}
	// a third one detects a silent backend on the connection itself (idle read deadline installed by the dialer), the way
	// deployments with an idle-timeout connection wrapper do: used only for the "stall-mid-head" fault
	fwdIdle := forward.New(false)
	fwdIdle.Transport = &http.Transport{DisableKeepAlives: true, MaxIdleConns: -1, DialContext: func(ctx context.Context, network, addr string) (net.Conn, error) {
		conn, err := (&net.Dialer{}).DialContext(ctx, network, addr)
		if err != nil {
			return nil, err
		}
		return idleConn{conn, 300 * time.Millisecond}, nil
	}}
	// observe which error the reverse proxy hands to oxy's standard error handler (the handler itself is unchanged)
	origErrHandler := fwd.ErrorHandler // whatever forward.New installed stays in charge
	recErrHandler := func(w http.ResponseWriter, req *http.Request, err error) {
		id := req.URL.Query().Get("id")
		if id == "" {
			id = req.URL.Query().Get("rid") // routed inside the listener
		}
		mu.Lock()
		if res := results[id]; res != nil {
			res.errs = append(res.errs, err.Error())
		}
		mu.Unlock()
		if origErrHandler != nil {
			origErrHandler(w, req, err)
			return
		}
		utils.DefaultHandler.ServeHTTP(w, req, err)
	}
	fwd.ErrorHandler = recErrHandler
	fwdStall.ErrorHandler = recErrHandler
	fwdIdle.ErrorHandler = recErrHandler
	listen := func(u *url.URL, state int) {
		id := u.Query().Get("id")
		mu.Lock()
		if res := results[id]; res != nil {
			res.events = append(res.events, state)
		}
		mu.Unlock()
	}
	sl := forward.NewStateListener(fwd, listen)
	slStall := forward.NewStateListener(fwdStall, listen)
	slIdle := forward.NewStateListener(fwdIdle, listen)
	slRoute := forward.NewStateListener(http.HandlerFunc(func(w http.ResponseWriter, req *http.Request) {
		// route, then forward: the listener in front has seen the inbound URL and must report both events for it
		req.URL = &url.URL{Scheme: "http", Host: req.Header.Get("X-Route-To"), Path: "/routed", RawQuery: "rid=" + req.URL.Query().Get("id")}
		req.Header.Del("X-Route-To")
		fwd.ServeHTTP(w, req)
	}), listen)
	// the same forwarder as deployments have it: behind a circuit breaker that never trips, or as the handler of a
	// rebalanced round-robin whose single server entry is a placeholder (the handler keeps the URL it was given)
	behindBreaker, err := cbreaker.New(sl, "NetworkErrorRatio() > 1.5")
	if err != nil {
		c.Inconclusive("cbreaker.New: " + err.Error())
		return
	}
	var behindRebalancer http.Handler
	{
		keepURL := http.HandlerFunc(func(w http.ResponseWriter, req *http.Request) {
			if t := req.Header.Get("X-Backend"); t != "" {
				req.Header.Del("X-Backend")
				if u, err := url.Parse(t); err == nil {
					req.URL = u // the balancer substituted its placeholder server URL: put the real target back
				}
			}
			sl.ServeHTTP(w, req)
		})
		rr, err := roundrobin.New(keepURL)
		if err != nil {
			c.Inconclusive("roundrobin.New: " + err.Error())
			return
		}
		rb, err := roundrobin.NewRebalancer(rr)
		if err != nil {
			c.Inconclusive("NewRebalancer: " + err.Error())
			return
		}
		_ = rb.UpsertServer(mustURL("http://placeholder.invalid"))
		behindRebalancer = http.HandlerFunc(func(w http.ResponseWriter, req *http.Request) {
			req.Header.Set("X-Backend", req.URL.String())
			rb.ServeHTTP(w, req)
		})
	}
	proxy := newTestServer(http.HandlerFunc(func(w http.ResponseWriter, req *http.Request) {
		id := req.URL.Query().Get("id")
		mu.Lock()
		res := results[id]
		ch := doneCh[id]
		mu.Unlock()
		if res == nil {
			w.WriteHeader(400)
			return
		}
		defer close(ch)
		target := req.Header.Get("X-Target")
		req.Header.Del("X-Target")
		if req.Header.Get("X-Gone-Already") != "" {
			// the client gave up while the request was held upstream (in a limiter, a buffer, a retry wait): by the time
			// the request reaches the listener and the forwarder its context is already done
			req.Header.Del("X-Gone-Already")
			gone, cancelNow := context.WithCancel(req.Context())
			cancelNow()
			req = req.WithContext(gone)
		}
		if req.Header.Get("X-Route-Inside") != "" {
			req.Header.Del("X-Route-Inside")
			req.Header.Set("X-Route-To", target)
			slRoute.ServeHTTP(&statusRec{w, &mu, &res.code}, req)
			return
		}
		req.URL = &url.URL{Scheme: "http", Host: target, Path: req.URL.Path, RawQuery: req.URL.RawQuery}
		if req.Header.Get("X-No-Cancel") != "" {
			req.Header.Del("X-No-Cancel")
			req = req.WithContext(context.WithoutCancel(req.Context()))
		}
		switch req.Header.Get("X-Behind") {
		case "breaker":
			req.Header.Del("X-Behind")
			behindBreaker.ServeHTTP(&statusRec{w, &mu, &res.code}, req)
			return
		case "rebalancer":
			req.Header.Del("X-Behind")
			behindRebalancer.ServeHTTP(&statusRec{w, &mu, &res.code}, req)
			return
		}
		if req.Header.Get("X-Stall") == "idle" {
			req.Header.Del("X-Stall")
			slIdle.ServeHTTP(&statusRec{w, &mu, &res.code}, req)
			return
		}
		if req.Header.Get("X-Stall") != "" {
			req.Header.Del("X-Stall")
			slStall.ServeHTTP(&statusRec{w, &mu, &res.code}, req)
			return
		}
		sl.ServeHTTP(&statusRec{w, &mu, &res.code}, req)
	}))
	defer proxy.Close()
	client := &http.Client{Transport: &http.Transport{DisableKeepAlives: true}, Timeout: 60 * time.Second,
		CheckRedirect: func(*http.Request, []*http.Request) error { return http.ErrUseLastResponse }}

	faults := []string{"gone-already", "none", "none", "none", "refuse", "close-accept", "close-after-request", "rst-after-request", "cut-head", "garbage-head", "cut-body", "cut-before-last-chunk", "stall", "cancel-before-head", "cancel-mid-body", "stall-mid-head", "bad-address"}
	n := c.N(len(faults)*50, len(faults)*1200)
	c.Cases("case", n, func(i int, r *rand.Rand) {
		p := c16Plan{Fault: faults[i%len(faults)], NHeaders: r.IntN(11), RST: r.IntN(2) == 0}
		p.Status = pick(r, []int{200, 200, 201, 202, 204, 301, 304, 400, 404, 418, 500, 502, 503, 504, 599})
		switch r.IntN(6) {
		case 0:
			p.BodyLen = 0
		case 1:
			p.BodyLen = 1 + r.IntN(100)
		case 2:
			p.BodyLen = 64<<10 + r.IntN(200<<10)
		case 3:
			if !c.Quick() || i%5 == 0 {
				p.BodyLen = 1<<20 + r.IntN(1<<20)
			} else {
				p.BodyLen = r.IntN(300 << 10)
			}
		default:
			p.BodyLen = r.IntN(20000)
		}
		p.Chunked = r.IntN(2) == 0
		if p.Fault == "none" && r.IntN(3) == 0 {
			p.Pauses = 1 + r.IntN(12)
		}
		if p.Fault == "none" && r.IntN(4) == 0 {
			p.Early = true
		}
		if p.Fault == "none" && p.Chunked && p.Status != 204 && p.Status != 304 && r.IntN(3) == 0 {
			p.HeadFirst = true
			if p.BodyLen == 0 {
				p.BodyLen = 1 + r.IntN(2000)
			}
		}
		if p.Behind == "" && p.Fault != "stall" && p.Fault != "stall-mid-head" && r.IntN(4) == 0 {
			p.RouteInside = true
		}
		if r.IntN(12) == 0 && p.Fault == "none" {
			p.Status = pick(r, []int{600, 612, 799, 999}) // unusual but legal: net/http accepts every three-digit status
		}
		if (p.Fault == "none" || p.Fault == "gone-already" || p.Fault == "refuse" || p.Fault == "close-after-request") && r.IntN(3) == 0 {
			p.Behind = pick(r, []string{"breaker", "rebalancer"})
		}
		if (p.Fault == "close-after-request" || p.Fault == "rst-after-request" || p.Fault == "stall") && r.IntN(3) == 0 {
			// the backend sends 103 Early Hints and fails before its response; mostly behind a breaker / rebalancer
			p.Early = true
			if p.Fault != "stall" && r.IntN(4) != 0 {
				p.Behind = pick(r, []string{"breaker", "rebalancer"})
			}
			c.Count("failures_after_an_interim_response", 1)
		}
		if p.Fault == "cancel-before-head" && r.IntN(3) == 0 {
			p.Behind = "breaker"
			p.NoCancel = r.IntN(2) == 0
		}
		p.ChunkSize = pick(r, []int{1, 7, 512, 4096, 65536, 0})
		if p.BodyLen > 100000 && p.ChunkSize < 512 {
			p.ChunkSize = 4096
		}
		if strings.HasPrefix(p.Fault, "cut-b") || p.Fault == "cancel-mid-body" {
			if p.Status == 204 || p.Status == 304 {
				p.Status = 200
			}
			if p.BodyLen < 2000 {
				p.BodyLen = 2000 + r.IntN(300000)
			}
			p.CutAt = r.IntN(p.BodyLen)
			if p.Fault == "cut-before-last-chunk" {
				p.Chunked = true
			}
			if p.Fault == "cancel-mid-body" {
				p.BodyLen = 400000 + r.IntN(400000) // larger than the socket buffers so that the proxy is really mid-copy
			}
		}
		if p.Fault == "cut-head" || p.Fault == "stall-mid-head" {
			p.CutAt = 1 + r.IntN(40)
		}
		back, err := newC16Backend(r, p, uint64(i)+c.Seed)
		if err != nil {
			c.Inconclusive("listen failed")
			return
		}
		defer func() {
			back.l.Close()
		}()
		id := sfmt("c%d", i)
		res := &result{}
		ch := make(chan struct{})
		mu.Lock()
		results[id] = res
		doneCh[id] = ch
		mu.Unlock()
		ctx, cancel := context.WithCancel(context.Background())
		defer cancel()
		req, _ := http.NewRequestWithContext(ctx, "GET", proxy.URL+"/r?id="+id, nil)
		req.Header.Set("X-Target", back.l.Addr().String())
		if p.Fault == "bad-address" {
			// a backend address that cannot even be dialled (the error carries no socket address)
			req.Header.Set("X-Target", pick(r, []string{"127.0.0.1:99999", "127.0.0.1:70000", "[::1]:123456"}))
		}
		if p.Fault == "stall-mid-head" {
			req.Header.Set("X-Stall", "idle")
		}
		if p.NoCancel {
			req.Header.Set("X-No-Cancel", "1")
			c.Count("cases_with_context_without_cancel", 1)
		}
		if p.RouteInside {
			req.Header.Set("X-Route-Inside", "1")
			c.Count("cases_routed_inside_the_listener", 1)
		}
		if p.Behind != "" {
			req.Header.Set("X-Behind", p.Behind)
			c.Count("cases_behind_"+p.Behind, 1)
		}
		if p.Fault == "stall" {
			req.Header.Set("X-Stall", "1")
		}
		if p.Fault == "gone-already" {
			req.Header.Set("X-Gone-Already", "1")
		}
		if p.Fault == "cancel-before-head" {
			go func() { time.Sleep(40 * time.Millisecond); cancel() }()
		}
		type cres struct {
			resp *http.Response
			body []byte
			err  error
			rerr error
		}
		out := make(chan cres, 1)
		go func() {
			resp, err := client.Do(req)
			if err != nil {
				out <- cres{err: err}
				return
			}
			defer resp.Body.Close()
			if p.HeadFirst {
				close(back.headSeen) // the client holds the response head
			}
			if p.Fault == "cancel-mid-body" {
				buf := make([]byte, 1000)
				_, _ = io.ReadFull(resp.Body, buf)
				cancel()
				out <- cres{resp: resp, body: buf}
				return
			}
			b, rerr := io.ReadAll(resp.Body)
			out <- cres{resp: resp, body: b, rerr: rerr}
		}()
		var cr cres
		select {
		case cr = <-out:
		case <-time.After(60 * time.Second):
			c.Violation("hang", sfmt("fault %s: the client got no answer within 60s", p.Fault), p)
			return
		}
		select {
		case <-ch:
		case <-time.After(60 * time.Second):
			c.Violation("hang", sfmt("fault %s: the proxy handler did not return within 60s", p.Fault), p)
			return
		}
		c.Eval()
		mu.Lock()
		recorded := res.code
		events := append([]int(nil), res.events...)
		errTxt := strings.Join(res.errs, "; ")
		delete(results, id)
		delete(doneCh, id)
		mu.Unlock()
		c.Count("fault_"+p.Fault, 1)
		// listener pairing
		if len(events) != 2 || events[0] != forward.StateConnected || events[1] != forward.StateDisconnected {
			key := "listener/unpaired"
			if strings.HasPrefix(p.Fault, "cut-b") || p.Fault == "cancel-mid-body" {
				key = "listener/unpaired-on-abort"
			}
			c.Violation(key, sfmt("fault %s: state listener saw events %v (0=connected,1=disconnected); want exactly [0 1]", p.Fault, events), p)
			return
		}
		status := 0
		if cr.resp != nil {
			status = cr.resp.StatusCode
		}
		switch p.Fault {
		case "none":
			if cr.err != nil || cr.rerr != nil {
				c.Violation("relay/failed", sfmt("plain relay failed: %v %v", cr.err, cr.rerr), p)
				return
			}
			if status != p.Status {
				c.Violation("relay/status", sfmt("client saw status %d, backend sent %d", status, p.Status), p)
				return
			}
			if p.HeadFirst {
				c.Count("head_first_streams", 1)
				if back.headDelayed.Load() {
					c.Violation("relay/head-delayed", sfmt("streamed (chunked) response: the backend sent its response head and waited for the client to have it before sending the body; the head did not reach the client within 20s (behind=%q)", p.Behind), p)
					return
				}
			}
			want := back.body
			if !bytes.Equal(cr.body, want) {
				c.Violation("relay/body", sfmt("client got %d body bytes, backend sent %d (chunked=%v chunk=%d); first difference at %d", len(cr.body), len(want), p.Chunked, p.ChunkSize, firstDiff(cr.body, want)), p)
				return
			}
			exp := map[string][]string{}
			for _, h := range back.hdrs {
				exp[h[0]] = append(exp[h[0]], h[1])
			}
			for name, vals := range exp {
				if name == "Content-Type" && p.Status == 304 {
					continue // net/http's server suppresses Content-Type on 304 responses
				}
				if got := cr.resp.Header.Values(name); strings.Join(got, "\x00") != strings.Join(vals, "\x00") {
					c.Violation("relay/headers", sfmt("end-to-end response header %s: client saw %q, backend sent %q", name, got, vals), p)
					return
				}
			}
		case "refuse", "close-accept", "close-after-request", "rst-after-request", "bad-address":
			if p.Early {
				// the backend sent an interim response (103) and failed before its response: response bytes were received, so
				// like a damaged head this is 502 or "any other failure" (500); what it can never be is a success or the 103
				if status != 500 && status != 502 {
					c.Violation("mapping/failed-after-interim", sfmt("fault %s after the backend had sent 103 Early Hints (behind=%q): client saw status %d (client error %v), recorded %d; want 502 or 500; error given to the error handler: %q", p.Fault, p.Behind, status, cr.err, recorded, errTxt), p)
					return
				}
				break
			}
			if status != http.StatusBadGateway {
				key := "mapping/no-response-502"
				if strings.Contains(errTxt, "server closed idle connection") {
					key = "mapping/no-response-502/server-closed-idle-connection"
				}
				c.Violation(key, sfmt("fault %s (no response byte received from the backend): client saw status %d (client error %v), want 502; error given to the error handler: %q", p.Fault, status, cr.err, errTxt), p)
				return
			}
		case "stall-mid-head":
			if status != http.StatusGatewayTimeout {
				c.Violation("mapping/timeout-504", sfmt("backend sent the beginning of its response head and then stalled; the idle deadline on the backend connection expired: client saw status %d err %v, want 504; error given to the error handler: %q", status, cr.err, errTxt), p)
				return
			}
		case "stall":
			if status != http.StatusGatewayTimeout {
				c.Violation("mapping/timeout-504", sfmt("backend stalled beyond the response-header timeout: client saw status %d err %v, want 504", status, cr.err), p)
				return
			}
		case "cut-head", "garbage-head":
			if status != 500 && status != 502 {
				c.Violation("mapping/damaged-head", sfmt("fault %s: client saw status %d err %v, want 500 or 502", p.Fault, status, cr.err), p)
				return
			}
		case "gone-already":
			if recorded != 499 {
				c.Violation("mapping/client-gone-499", sfmt("the request's context was already cancelled when it reached the forwarder (behind=%q): recorded status %d, want 499; error given to the error handler: %q", p.Behind, recorded, errTxt), p)
				return
			}
		case "cancel-before-head":
			if recorded != 499 {
				c.Violation("mapping/client-gone-499", sfmt("client cancelled while the backend was silent: recorded status %d, want 499", recorded), p)
				return
			}
		case "cut-body", "cut-before-last-chunk":
			if cr.err != nil {
				// acceptable only if nothing of the head arrived
				c.Count("cut_body_client_error_before_head", 1)
				break
			}
			if status != p.Status {
				c.Violation("relay/status", sfmt("fault %s: client saw status %d, backend sent %d before failing", p.Fault, status, p.Status), p)
				return
			}
			if len(cr.body) < len(back.body) && cr.rerr == nil {
				c.Violation("relay/truncation-hidden", sfmt("fault %s: the backend died after %d of %d body bytes (chunked=%v); the client received %d bytes and was told the response was complete (no read error)", p.Fault, p.CutAt, len(back.body), p.Chunked, len(cr.body)), p)
				return
			}
			if !bytes.HasPrefix(back.body, cr.body) {
				c.Violation("relay/extra-bytes", sfmt("fault %s: the %d body bytes the client received are not a prefix of what the backend sent (first difference at %d)", p.Fault, len(cr.body), firstDiff(cr.body, back.body[:min(len(back.body), len(cr.body))])), p)
				return
			}
			if len(cr.body) == len(back.body) && cr.rerr == nil && p.Fault == "cut-body" && p.CutAt < p.BodyLen-1 && !p.Chunked {
				c.Violation("relay/extra-bytes", "client received the complete declared body although the backend stopped early", p)
				return
			}
		case "cancel-mid-body":
			if recorded != p.Status && recorded != 499 {
				c.Violation("relay/status", sfmt("cancel mid-body: recorded status %d, backend sent %d", recorded, p.Status), p)
				return
			}
		}
		// the proxy must still serve: probe with a fresh healthy backend
		pb, err := newC16Backend(r, c16Plan{Fault: "none", Status: 200, BodyLen: 5}, 1)
		if err == nil {
			pid := id + "p"
			pres := &result{}
			pch := make(chan struct{})
			mu.Lock()
			results[pid] = pres
			doneCh[pid] = pch
			mu.Unlock()
			preq, _ := http.NewRequest("GET", proxy.URL+"/probe?id="+pid, nil)
			preq.Header.Set("X-Target", pb.l.Addr().String())
			presp, err := client.Do(preq)
			if err != nil || presp.StatusCode != 200 {
				st := 0
				if presp != nil {
					st = presp.StatusCode
				}
				c.Violation("proxy/dead-after-fault", sfmt("after fault %s the proxy did not serve a probe request (err %v, status %d)", p.Fault, err, st), p)
				pb.l.Close()
				return
			}
			io.Copy(io.Discard, presp.Body)
			presp.Body.Close()
			<-pch
			mu.Lock()
			delete(results, pid)
			delete(doneCh, pid)
			mu.Unlock()
			pb.l.Close()
			c.Count("probes_after_fault_ok", 1)
		}
		if p.Fault != "none" || p.BodyLen >= 64<<10 || p.Chunked {
			c.Nontrivial(sfmt("%+v", p))
			c.Count("cases_nontrivial", 1)
		}
		if i < len(faults) && i%5 == 0 {
			c.Sample(p)
		}
	})
	c.Require("cases_nontrivial", 2)
	for _, f := range faults {
		c.Require("fault_"+f, 1)
	}
}

type refusedListener struct {
	addr    string
	release func()
}

func (r *refusedListener) Accept() (net.Conn, error) { return nil, net.ErrClosed }
func (r *refusedListener) Close() error              { r.release(); return nil }
func (r *refusedListener) Addr() net.Addr {
	a, _ := net.ResolveTCPAddr("tcp4", r.addr)
	return a
}

func boundNotListening() (string, func(), error) {
	fd, err := syscall.Socket(syscall.AF_INET, syscall.SOCK_STREAM, 0)
	if err != nil {
		return "", nil, err
	}
	sa := &syscall.SockaddrInet4{Port: 0, Addr: [4]byte{127, 0, 0, 1}}
	if err := syscall.Bind(fd, sa); err != nil {
		syscall.Close(fd)
		return "", nil, err
	}
	got, err := syscall.Getsockname(fd)
	if err != nil {
		syscall.Close(fd)
		return "", nil, err
	}
	port := got.(*syscall.SockaddrInet4).Port
	var once sync.Once
	return sfmt("127.0.0.1:%d", port), func() { once.Do(func() { syscall.Close(fd) }) }, nil
}

// c16ConcRelay: several large responses are relayed at the same time through ONE forwarder; every client must get
// exactly its own backend's bytes (the statement says "unchanged, for any size and chunking" - also under load).
func c16ConcRelay(c *Ctx) {
	// first thing in this fresh process: a burst of simultaneous failures of every class through one forwarder
	// (a proxy restarted while its backends are down); each must get its gateway status and the process must survive
	if c.ReplayCase < 0 && c.Shard == 0 {
		fwd := forward.New(false)
		fwd.Transport = &http.Transport{ResponseHeaderTimeout: 100 * time.Millisecond, DisableKeepAlives: true}
		refusedAddr, release, err := boundNotListening()
		if err == nil {
			defer release()
			stall, _ := listenRetry("tcp4", "127.0.0.1:0")
			go func() {
				for {
					conn, err := stall.Accept()
					if err != nil {
						return
					}
					go func() { time.Sleep(2 * time.Second); conn.Close() }()
				}
			}()
			var wg sync.WaitGroup
			start := make(chan struct{})
			var wrong atomic.Int64
			for g := 0; g < 48; g++ {
				wg.Add(1)
				go func(g int) {
					defer wg.Done()
					target, want := refusedAddr, 502
					ctx, cancel := context.WithCancel(context.Background())
					defer cancel()
					switch g % 3 {
					case 1:
						target, want = stall.Addr().String(), 504
					case 2:
						target, want = stall.Addr().String(), 499
						cancel()
					}
					req := httptest.NewRequest("GET", "http://front.test/x", nil).WithContext(ctx)
					req.URL = &url.URL{Scheme: "http", Host: target, Path: "/x"}
					req.RequestURI = "/x"
					rec := httptest.NewRecorder()
					<-start
					fwd.ServeHTTP(rec, req)
					if rec.Code != want {
						wrong.Add(1)
					}
				}(g)
			}
			close(start)
			wg.Wait()
			stall.Close()
			c.Count("concurrent_first_failures", 48)
			if wrong.Load() > 0 {
				c.Violation("mapping/concurrent-failures", sfmt("%d of 48 simultaneous failing requests (refused / header timeout / cancelled) got a status other than 502 / 504 / 499", wrong.Load()), nil)
			}
		}
	}
	c.Cases("concrelay", c.N(6, 120), func(i int, r *rand.Rand) {
		const G = 8
		sizes := make([]int, G)
		backs := make([]*httptest.Server, G)
		for g := 0; g < G; g++ {
			sizes[g] = 200000 + r.IntN(3000000)
			if c.Quick() {
				sizes[g] = 100000 + r.IntN(900000)
			}
			g := g
			backs[g] = newTestServer(http.HandlerFunc(func(w http.ResponseWriter, req *http.Request) {
				w.Header().Set("X-Backend", sfmt("b%d", g))
				body := bytes.Repeat([]byte{byte('a' + g)}, sizes[g])
				// large writes so that single reads on the proxy side are large, too
				for off := 0; off < len(body); off += 256 << 10 {
					_, _ = w.Write(body[off:min(off+256<<10, len(body))])
				}
			}))
			defer backs[g].Close()
		}
		fwd := forward.New(r.IntN(2) == 0)
		proxy := newTestServer(http.HandlerFunc(func(w http.ResponseWriter, req *http.Request) {
			t := req.Header.Get("X-Target")
			req.Header.Del("X-Target")
			req.URL = &url.URL{Scheme: "http", Host: t, Path: req.URL.Path}
			fwd.ServeHTTP(w, req)
		}))
		defer proxy.Close()
		client := &http.Client{Transport: &http.Transport{MaxIdleConnsPerHost: G}, Timeout: 120 * time.Second}
		rounds := 3 + r.IntN(4)
		var bad sync.Map
		for round := 0; round < rounds; round++ {
			var wg sync.WaitGroup
			start := make(chan struct{})
			for g := 0; g < G; g++ {
				wg.Add(1)
				go func(g int) {
					defer wg.Done()
					<-start
					req, _ := http.NewRequest("GET", proxy.URL+"/big", nil)
					req.Header.Set("X-Target", backs[g].Listener.Addr().String())
					resp, err := client.Do(req)
					if err != nil {
						bad.Store(g, sfmt("request failed: %v", err))
						return
					}
					defer resp.Body.Close()
					body, err := io.ReadAll(resp.Body)
					if err != nil || len(body) != sizes[g] || resp.Header.Get("X-Backend") != sfmt("b%d", g) {
						bad.Store(g, sfmt("got %d bytes (want %d), header %q, err %v", len(body), sizes[g], resp.Header.Get("X-Backend"), err))
						return
					}
					for k, ch := range body {
						if ch != byte('a'+g) {
							bad.Store(g, sfmt("byte %d of the body of backend b%d is %q: bytes of another response", k, g, ch))
							return
						}
					}
				}(g)
			}
			close(start)
			wg.Wait()
			c.Count("concurrent_large_relays", G)
		}
		c.Eval()
		first := ""
		bad.Range(func(k, v any) bool { first = sfmt("client %v: %v", k, v); return false })
		if first != "" {
			c.Violation("relay/body-under-concurrency", sfmt("%d clients fetched %d-%d byte bodies through one forwarder at the same time: %s", G, 100000, 3200000, first), nil)
			return
		}
		c.Nontrivial(sfmt("concrelay/%v/%d", sizes, rounds))
		c.Count("concrelay_nontrivial", 1)
	})
	c.Require("concrelay_nontrivial", 2)
}

// idleConn: a backend connection with an idle timeout (read deadline renewed before every read).
type idleConn struct {
	net.Conn
	d time.Duration
}

func (c idleConn) Read(p []byte) (int, error) {
	_ = c.Conn.SetReadDeadline(time.Now().Add(c.d))
	return c.Conn.Read(p)
}

// c16ManyStreams: a forwarder exactly as forward.New builds it (its own default transport) relays many long-lived
// responses to one backend at the same time (event streams, long polls); a further plain request to the same backend
// must still be relayed promptly, never left hanging behind the open streams.
func c16ManyStreams(c *Ctx) {
	c.Cases("streams", c.N(2, 12), func(i int, r *rand.Rand) {
		release := make(chan struct{})
		var released sync.Once
		defer released.Do(func() { close(release) })
		backend := newTestServer(http.HandlerFunc(func(w http.ResponseWriter, req *http.Request) {
			if req.URL.Path == "/plain" {
				w.WriteHeader(http.StatusTeapot)
				return
			}
			w.Header().Set("Content-Type", "text/event-stream")
			w.WriteHeader(200)
			if f, ok := w.(http.Flusher); ok {
				f.Flush()
			}
			select {
			case <-release:
			case <-req.Context().Done():
			}
			_, _ = w.Write([]byte("data: bye\n\n"))
		}))
		defer backend.Close()
		burl, _ := url.Parse(backend.URL)
		fwd := forward.New(false)
		proxy := newTestServer(http.HandlerFunc(func(w http.ResponseWriter, req *http.Request) {
			req.URL = &url.URL{Scheme: "http", Host: burl.Host, Path: req.URL.Path}
			fwd.ServeHTTP(w, req)
		}))
		defer proxy.Close()
		client := &http.Client{Transport: &http.Transport{MaxIdleConnsPerHost: 100}, Timeout: 120 * time.Second}
		n := 33 + r.IntN(28)
		type opened struct {
			resp *http.Response
			err  error
		}
		heads := make(chan opened, n)
		for k := 0; k < n; k++ {
			go func() {
				resp, err := client.Get(proxy.URL + "/stream")
				heads <- opened{resp, err}
			}()
		}
		var open []*http.Response
		deadline := time.After(60 * time.Second)
		for k := 0; k < n; k++ {
			select {
			case o := <-heads:
				if o.err != nil {
					c.Eval()
					c.Violation("streams/failed", sfmt("stream %d of %d through the forwarder failed: %v", k+1, n, o.err), nil)
					return
				}
				open = append(open, o.resp)
			case <-deadline:
				c.Eval()
				c.Violation("streams/head-missing", sfmt("%d event streams opened through one forwarder to one backend: only %d delivered their response head within 60s (the backend answers at once)", n, len(open)), nil)
				return
			}
		}
		c.Count("streams_open_at_once", int64(n))
		plain := make(chan opened, 1)
		go func() {
			resp, err := client.Get(proxy.URL + "/plain")
			plain <- opened{resp, err}
		}()
		c.Eval()
		select {
		case o := <-plain:
			if o.err != nil || o.resp.StatusCode != http.StatusTeapot {
				c.Violation("streams/plain-wrong", sfmt("with %d streams open, a plain request got %v / %v, want the backend's 418", n, o.resp, o.err), nil)
				return
			}
			o.resp.Body.Close()
		case <-time.After(30 * time.Second):
			c.Violation("streams/plain-hangs", sfmt("with %d long-lived responses from one backend open through the forwarder, a further plain request to that backend got no status within 30s (neither the backend's 418 nor 502/504): it hangs", n), nil)
			return
		}
		released.Do(func() { close(release) })
		for _, resp := range open {
			b, _ := io.ReadAll(resp.Body)
			resp.Body.Close()
			if !bytes.Contains(b, []byte("bye")) {
				c.Violation("streams/body", sfmt("a released stream delivered %q", string(b)), nil)
				return
			}
		}
		c.Nontrivial(sfmt("streams/%d/%d", n, i))
		c.Count("manystreams_nontrivial", 1)
	})
	c.Require("manystreams_nontrivial", 2)
}

// c16OddRequests: unusual but legal request shapes (CONNECT in authority form with IP literals, absolute-form targets,
// several Connection lines some of which name only forwarding headers) sent over raw TCP through a state listener and the
// forwarder under a real http.Server. Whatever the backend makes of them, the client must get a complete response head
// ("never a hang or a crash of the proxy") and the listener's events must be paired.
func c16OddRequests(c *Ctx) {
	backend := newTestServer(http.HandlerFunc(func(w http.ResponseWriter, req *http.Request) {
		w.Header().Set("X-Backend-Saw", req.Method)
		w.WriteHeader(http.StatusMethodNotAllowed)
		_, _ = w.Write([]byte("not here"))
	}))
	defer backend.Close()
	backendAddr := strings.TrimPrefix(backend.URL, "http://")
	var mu sync.Mutex
	var events []int
	fwd := forward.New(false)
	sl := forward.NewStateListener(fwd, func(u *url.URL, state int) {
		mu.Lock()
		events = append(events, state)
		mu.Unlock()
	})
	done := make(chan struct{}, 1)
	proxy := newTestServer(http.HandlerFunc(func(w http.ResponseWriter, req *http.Request) {
		defer func() {
			select {
			case done <- struct{}{}:
			default:
			}
		}()
		req.URL = &url.URL{Scheme: "http", Host: backendAddr, Path: req.URL.Path, RawQuery: req.URL.RawQuery}
		sl.ServeHTTP(w, req)
	}))
	defer proxy.Close()
	proxyAddr := strings.TrimPrefix(proxy.URL, "http://")
	shapes := []struct{ name, raw string }{
		{"connect-ipv4-authority", "CONNECT 10.1.2.3:443 HTTP/1.1\r\nHost: 10.1.2.3:443\r\n\r\n"},
		{"connect-ipv6-authority", "CONNECT [::1]:443 HTTP/1.1\r\nHost: [::1]:443\r\n\r\n"},
		{"connect-name-authority", "CONNECT example.com:443 HTTP/1.1\r\nHost: example.com:443\r\n\r\n"},
		{"absolute-form", "GET http://other.test/abs/path?x=1 HTTP/1.1\r\nHost: other.test\r\n\r\n"},
		{"connection-lines-forwarding-first", "GET /a HTTP/1.1\r\nHost: front.test\r\nConnection: X-Forwarded-Host\r\nConnection: keep-alive\r\n\r\n"},
		{"connection-lines-three", "GET /b HTTP/1.1\r\nHost: front.test\r\nConnection: X-Forwarded-For, X-Real-Ip\r\nConnection: X-Custom\r\nX-Custom: 1\r\nConnection: close\r\n\r\n"},
		{"connection-lines-lower-case", "GET /c HTTP/1.1\r\nHost: front.test\r\nconnection: x-forwarded-proto\r\nconnection: X-Forwarded-Host\r\nConnection: Keep-Alive\r\n\r\n"},
		{"connection-line-forwarding-only", "GET /d HTTP/1.1\r\nHost: front.test\r\nConnection: X-Forwarded-Host, X-Forwarded-Port\r\n\r\n"},
		{"plain", "GET /e?q=1 HTTP/1.1\r\nHost: front.test\r\n\r\n"},
		{"options-path", "OPTIONS /f HTTP/1.1\r\nHost: front.test\r\n\r\n"},
	}
	c.Cases("shape", c.N(120, 2000), func(i int, r *rand.Rand) {
		sh := shapes[i%len(shapes)]
		mu.Lock()
		events = nil
		mu.Unlock()
		select {
		case <-done:
		default:
		}
		conn, err := dialRetry("tcp", proxyAddr)
		if err != nil {
			c.Inconclusive("dial: " + err.Error())
			return
		}
		defer conn.Close()
		_ = conn.SetDeadline(time.Now().Add(60 * time.Second))
		if _, err := conn.Write([]byte(sh.raw)); err != nil {
			c.Inconclusive("write: " + err.Error())
			return
		}
		resp, rerr := http.ReadResponse(bufio.NewReader(conn), nil)
		c.Eval()
		desc := map[string]any{"shape": sh.name, "request": sh.raw}
		if rerr != nil {
			key := "crash/no-response"
			if ne, ok := rerr.(net.Error); ok && ne.Timeout() {
				key = "hang"
			}
			c.Violation(key, sfmt("request shape %s: the client got no response head from the proxy (%v): the handler crashed or hung; request was %q", sh.name, rerr, sh.raw), desc)
			return
		}
		_ = resp.Body.Close()
		select {
		case <-done:
		case <-time.After(30 * time.Second):
			c.Violation("hang", sfmt("request shape %s: the proxy handler did not return within 30s", sh.name), desc)
			return
		}
		mu.Lock()
		ev := append([]int(nil), events...)
		mu.Unlock()
		if len(ev) != 2 || ev[0] != forward.StateConnected || ev[1] != forward.StateDisconnected {
			c.Violation("listener/unpaired", sfmt("request shape %s (answered %d): state listener saw events %v (0=connected,1=disconnected); want exactly [0 1]", sh.name, resp.StatusCode, ev), desc)
			return
		}
		c.Count("odd_shape_"+sh.name, 1)
		c.Nontrivial(sfmt("odd/%s/%d", sh.name, resp.StatusCode))
	})
}
