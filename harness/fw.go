package main

// Framework shared by all property monitors.
//
// Process model: `vcheck drive` (plain build) is the driver. For every part of a
// property it starts one or more child processes (`vcheck child`, plain or -race
// build) which execute the workload, run the monitor and write a PartResult JSON
// file. The driver merges results, parses race-detector logs, applies the
// known-findings file, writes evidence and prints the verdict lines.

import (
	"encoding/json"
	"fmt"
	"hash/fnv"
	"math/rand/v2"
	"os"
	"sort"
	"sync"
	"time"
)

// Part is one workload of a property.
type Part struct {
	Name   string
	Race   bool // run with the -race build and count race reports
	Shards int  // max parallel child processes (cases are partitioned i % shards); 0 => 1
	// RealTimeout: watchdog for one shard (0 => default by tier)
	Timeout time.Duration
	Fn      func(c *Ctx)
}

// Property describes one check.
type Property struct {
	ID          string
	Level       string // evidence level
	Rule        string
	Assumptions []string
	Parts       []Part
}

var registry = map[string]*Property{}

func register(p *Property) { registry[p.ID] = p }

// Violation is one refuting observation.
type Violation struct {
	Key    string `json:"key"` // classification used by the known-findings matcher
	Msg    string `json:"msg"`
	Part   string `json:"part"`
	Case   int    `json:"case"`
	Detail any    `json:"detail,omitempty"`
}

// PartResult is what a child writes.
type PartResult struct {
	Prop         string           `json:"prop"`
	Part         string           `json:"part"`
	Shard        int              `json:"shard"`
	Evaluations  int64            `json:"evaluations"`
	Fingerprints []uint64         `json:"fingerprints"`
	FpOverflow   int64            `json:"fp_overflow"`
	Samples      []any            `json:"samples"`
	Counters     map[string]int64 `json:"counters"`
	Maxes        map[string]int64 `json:"maxes"`
	Requires     map[string]int64 `json:"requires"`
	Violations   []Violation      `json:"violations"`
	ViolCount    int64            `json:"viol_count"`
	Inconclusive []string         `json:"inconclusive"`
	Done         bool             `json:"done"`
}

// Ctx is the child-side API.
type Ctx struct {
	Prop, Part, Tier string
	Seed             uint64
	Shard, Shards    int
	ReplayCase       int // -1: none
	ScratchDir       string

	mu      sync.Mutex
	res     PartResult
	fpset   map[uint64]struct{}
	curCase int
	// fallbackSample: descriptor of the first non-trivial case, used when no case recorded a written-out sample
	fallbackSample any
}

const maxFingerprints = 400000
const maxViolationsKept = 40

func newCtx(prop, part, tier string, seed uint64, shard, shards, replay int, scratch string) *Ctx {
	c := &Ctx{Prop: prop, Part: part, Tier: tier, Seed: seed, Shard: shard, Shards: shards, ReplayCase: replay, ScratchDir: scratch}
	c.res = PartResult{Prop: prop, Part: part, Shard: shard, Counters: map[string]int64{}, Maxes: map[string]int64{}, Requires: map[string]int64{}}
	c.fpset = map[uint64]struct{}{}
	c.curCase = -1
	return c
}

func (c *Ctx) Quick() bool { return c.Tier != "thorough" }

// N picks a case count by tier.
func (c *Ctx) N(quick, thorough int) int {
	if c.Quick() {
		return quick
	}
	return thorough
}

func hash64(s string) uint64 {
	h := fnv.New64a()
	_, _ = h.Write([]byte(s))
	return h.Sum64()
}

// caseRand derives the PRNG of one case from (seed, prop, part, stream, index) only, so a
// case can be regenerated for replay irrespective of sharding.
func (c *Ctx) caseRand(stream string, i int) *rand.Rand {
	return rand.New(rand.NewPCG(c.Seed^hash64(c.Prop+"/"+c.Part+"/"+stream), uint64(i)*0x9e3779b97f4a7c15+1))
}

// Cases runs fn for every case index of this shard (or only the replayed case).
func (c *Ctx) Cases(stream string, n int, fn func(i int, r *rand.Rand)) {
	for i := 0; i < n; i++ {
		if c.ReplayCase >= 0 {
			if i != c.ReplayCase {
				continue
			}
		} else if c.Shards > 1 && i%c.Shards != c.Shard {
			continue
		}
		c.mu.Lock()
		c.curCase = i
		c.mu.Unlock()
		fn(i, c.caseRand(stream, i))
	}
	c.mu.Lock()
	c.curCase = -1
	c.mu.Unlock()
}

func (c *Ctx) Eval() { c.EvalN(1) }
func (c *Ctx) EvalN(n int64) {
	c.mu.Lock()
	c.res.Evaluations += n
	c.mu.Unlock()
}

// Nontrivial records the fingerprint of a case that satisfied the property's
// non-triviality rule. Distinctness is by fingerprint.
func (c *Ctx) Nontrivial(fp string) {
	h := hash64(fp)
	c.mu.Lock()
	if c.fallbackSample == nil {
		// kept in case no case of this child records a written-out sample: the descriptor of its first non-trivial case
		c.fallbackSample = map[string]any{"first_nontrivial_case": fp}
	}
	if _, ok := c.fpset[h]; !ok {
		if len(c.fpset) < maxFingerprints {
			c.fpset[h] = struct{}{}
		} else {
			c.res.FpOverflow++
		}
	}
	c.mu.Unlock()
}

func (c *Ctx) Sample(v any) {
	c.mu.Lock()
	if len(c.res.Samples) < 4 {
		c.res.Samples = append(c.res.Samples, v)
	}
	c.mu.Unlock()
}

func (c *Ctx) Count(name string, d int64) {
	c.mu.Lock()
	c.res.Counters[name] += d
	c.mu.Unlock()
}

func (c *Ctx) Max(name string, v int64) {
	c.mu.Lock()
	if cur, ok := c.res.Maxes[name]; !ok || v > cur {
		c.res.Maxes[name] = v
	}
	c.mu.Unlock()
}

// Require states that the merged counter must reach min, else the run is inconclusive.
func (c *Ctx) Require(name string, min int64) {
	c.mu.Lock()
	if c.res.Requires[name] < min {
		c.res.Requires[name] = min
	}
	if _, ok := c.res.Counters[name]; !ok {
		c.res.Counters[name] = 0
	}
	c.mu.Unlock()
}

func (c *Ctx) Violation(key, msg string, detail any) {
	c.mu.Lock()
	c.res.ViolCount++
	if len(c.res.Violations) < maxViolationsKept {
		c.res.Violations = append(c.res.Violations, Violation{Key: key, Msg: msg, Part: c.Part, Case: c.curCase, Detail: detail})
	}
	c.mu.Unlock()
}

func (c *Ctx) Violated() bool {
	c.mu.Lock()
	defer c.mu.Unlock()
	return c.res.ViolCount > 0
}

// Guard runs fn under a watchdog: false means fn did not return within d (the goroutine running it is abandoned).
// For case bodies in which nothing but calls into the library can block.
func (c *Ctx) Guard(d time.Duration, fn func()) bool {
	done := make(chan struct{})
	go func() {
		defer close(done)
		fn()
	}()
	select {
	case <-done:
		return true
	case <-time.After(d):
		return false
	}
}

func (c *Ctx) Inconclusive(msg string) {
	c.mu.Lock()
	if len(c.res.Inconclusive) < 20 {
		c.res.Inconclusive = append(c.res.Inconclusive, msg)
	}
	c.mu.Unlock()
}

func (c *Ctx) finish(path string) error {
	c.mu.Lock()
	if len(c.res.Samples) == 0 && c.fallbackSample != nil {
		c.res.Samples = append(c.res.Samples, c.fallbackSample)
	}
	defer c.mu.Unlock()
	c.res.Fingerprints = c.res.Fingerprints[:0]
	for h := range c.fpset {
		c.res.Fingerprints = append(c.res.Fingerprints, h)
	}
	sort.Slice(c.res.Fingerprints, func(i, j int) bool { return c.res.Fingerprints[i] < c.res.Fingerprints[j] })
	c.res.Done = true
	b, err := json.Marshal(&c.res)
	if err != nil {
		return err
	}
	return os.WriteFile(path, b, 0o644)
}

func sfmt(format string, a ...any) string { return fmt.Sprintf(format, a...) }

// ---- small generic helpers used by monitors ----

func pick[T any](r *rand.Rand, xs []T) T { return xs[r.IntN(len(xs))] }

func gcdInt(a, b int) int {
	for b != 0 {
		a, b = b, a%b
	}
	return a
}
