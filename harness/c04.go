package main

import (
	"strings"
	"context"
	"math/rand/v2"
	"net/http"
	"net/http/httptest"
	"runtime"
	"sort"
	"sync"
	"sync/atomic"
	"time"

	"github.com/anishathalye/porcupine"
	"github.com/vulcand/oxy/v2/connlimit"
	"github.com/vulcand/oxy/v2/utils"
)

func init() {
	register(&Property{
		ID:    "C04",
		Level: "exploration",
		Rule: "controlled schedules: generated scripts of start / finish-normally / finish-by-panic over 1-4 sources and limits 0-5 with handlers that block until released, so the driver knows the exact in-flight count at every arrival (expected decision: admit iff count < max; a gauge inside the handler asserts the maximum); " +
			"free-running: 16 goroutines behind a barrier on 1-2 sources with handlers that hold their slot for a random number of yields, recorded acquire/release histories checked for linearizability (porcupine, partitioned by source) against a counter model; after quiescence max probes per source must all be admitted concurrently; " +
			"a fifth of the controlled drivers use the built-in client.ip extractor over a table of peers (IPv4 with and without port, IPv6, zoned link-local with equal prefixes), a seventh the built-in request.host extractor over a table of Hosts (names, IPv4, bracketed IPv6 literals, with and without port), the others request.header.X in four spellings; handlers rewrite or delete the identifying header before returning; " +
			"non-trivial = script/history with at least one rejection at the limit and observed concurrency equal to the limit; distinct by (limit, script)",
		Assumptions: []string{"each request counts one unit (header-based extractor)", "porcupine Unknown (timeout) is inconclusive"},
		Parts: []Part{
			{Name: "controlled", Shards: 8, Fn: c04Controlled},
			{Name: "free", Race: true, Shards: 6, Fn: c04Free},
			{Name: "slowreject", Shards: 2, Fn: c04SlowReject},
		},
	})
}

var connExtractorSeq int

// connDriver runs requests through a ConnLimiter with handlers that block until released.
type connDriver struct {
	cl      *connlimit.ConnLimiter
	entered chan int
	done    chan connDone
	release map[int]chan bool // true => panic
	mu      sync.Mutex
	gauge   map[string]*atomic.Int64
	maxSeen map[string]int64
	byIP    bool // sources are told apart by the connection's peer address (built-in client.ip extractor)
	byHost  bool // sources are told apart by the Host they ask for (built-in request.host extractor)
	// header mode: the identifying header values are long and share a long prefix (bearer tokens of one issuer)
	longNames bool
	cancels   map[int]context.CancelFunc
	next      http.Handler
	// the second limiter's held requests
	otherRelease      chan struct{}
	otherIn, otherOut sync.WaitGroup
	otherRefused      atomic.Int64
}

const connLongPrefix = "Bearer eyJhbGciOiJSUzI1NiIsInR5cCI6IkpXVCIsImtpZCI6InByb2QtMjAyNi0wOSJ9.eyJpc3MiOiJodHRwczovL2lkLmV4YW1wbGUuY29tIiwiYXVkIjoiYXBpIn0."

// connPeers: peer addresses as net/http reports them; every source name sN maps to a distinct host.
var connPeers = []string{"10.0.0.1", "[fe80::1%eth0]", "10.0.0.2", "[fe80::2%eth0]", "[2001:db8::1]", "[fe80::3%wlan0]", "[::1]", "[2001:db8::2]", "192.168.1.10"}

// connHosts: Host values as clients send them; every source name sN maps to a distinct Host string (a Host with and
// without a port are different strings and therefore different sources for request.host).
var connHosts = []string{"api.example.com", "[2001:db8::1]", "[2001:db8::2]", "api.example.com:8080", "[2001:db8::1]:8443", "10.0.0.1", "10.0.0.1:80", "[2001:db8:0:1::9]", "[fe80::1]"}

func connHost(src string) string {
	k := 0
	for _, ch := range src {
		if ch >= '0' && ch <= '9' {
			k = k*10 + int(ch-'0')
		}
	}
	if k < len(connHosts) {
		return connHosts[k]
	}
	return sfmt("tenant-%d.example.com", k)
}

func connPeer(src string, id int) string {
	k := 0
	for _, ch := range src {
		if ch >= '0' && ch <= '9' {
			k = k*10 + int(ch-'0')
		}
	}
	host := sfmt("10.9.%d.%d", k/250, k%250+1)
	if k < len(connPeers) {
		host = connPeers[k]
	}
	if id%3 == 0 && !strings.Contains(host, ":") {
		return host // a listener that reports the bare address (no port): still the same peer
	}
	return sfmt("%s:%d", host, 1024+(id*7919)%60000)
}

type connDone struct {
	id       int
	status   int
	panicked bool
}

func newConnDriver(limit int64) *connDriver {
	d := &connDriver{entered: make(chan int, 64), done: make(chan connDone, 64), release: map[int]chan bool{}, gauge: map[string]*atomic.Int64{}, maxSeen: map[string]int64{}, cancels: map[int]context.CancelFunc{}}
	h := http.HandlerFunc(func(w http.ResponseWriter, req *http.Request) {
		src := strings.TrimPrefix(req.Header.Get("X-Src"), connLongPrefix)
		id := 0
		for _, ch := range req.Header.Get("X-Id") {
			id = id*10 + int(ch-'0')
		}
		d.mu.Lock()
		g := d.gauge[src]
		if g == nil {
			g = &atomic.Int64{}
			d.gauge[src] = g
		}
		n := g.Add(1)
		if n > d.maxSeen[src] {
			d.maxSeen[src] = n
		}
		rel := d.release[id]
		d.mu.Unlock()
		d.entered <- id
		p := <-rel
		g.Add(-1)
		// the wrapped handler edits the request it was given (the limiter must have taken the source at admission)
		switch id % 3 {
		case 0:
			req.Header.Set("X-Src", "rewritten-by-handler")
		case 1:
			req.Header.Del("X-Src")
		}
		if p {
			panic("scripted handler panic")
		}
		w.WriteHeader(200)
	})
	// the library's own header extractor, configured with one of several legal spellings of the header name
	connExtractorSeq++
	variable := "request.header." + []string{"X-Src", "x-src", "X-SRC", "x-Src"}[connExtractorSeq%4]
	if connExtractorSeq%5 == 4 {
		variable = "client.ip"
		d.byIP = true
	} else if connExtractorSeq%7 == 3 {
		variable = "request.host"
		d.byHost = true
	} else if connExtractorSeq%3 == 1 {
		d.longNames = true
	}
	ex, err := utils.NewExtractor(variable)
	if err != nil {
		panic(err)
	}
	cl, err := connlimit.New(h, ex, limit)
	if err != nil {
		panic(err)
	}
	d.cl = cl
	d.next = h
	// another limiter of the same process (another route keyed on the same variable), busy with the same sources for the
	// whole life of this driver: limiters are independent of each other
	d.otherRelease = make(chan struct{})
	other, err := connlimit.New(http.HandlerFunc(func(w http.ResponseWriter, req *http.Request) {
		w.Header().Set("X-Entered", "1")
		d.otherIn.Done()
		<-d.otherRelease
	}), ex, 1)
	if err == nil {
		for k := 0; k < 4; k++ {
			src := sfmt("s%d", k)
			req := httptest.NewRequest("GET", "http://other-route.test/", nil)
			req.Header.Set("X-Src", src)
			if d.longNames {
				req.Header.Set("X-Src", connLongPrefix+src)
			}
			if d.byIP {
				req.RemoteAddr = connPeer(src, 1000+k)
			}
			if d.byHost {
				req.Host = connHost(src)
			}
			d.otherIn.Add(1)
			d.otherOut.Add(1)
			go func() {
				defer d.otherOut.Done()
				rec := httptest.NewRecorder()
				other.ServeHTTP(rec, req)
				if rec.Header().Get("X-Entered") == "" {
					d.otherIn.Done() // refused by the other limiter (it cannot be: it is fresh and holds nothing) - do not wait for it
					d.otherRefused.Add(1)
				}
			}()
		}
		d.otherIn.Wait()
	}
	return d
}

// close lets the requests held by the other limiter go.
func (d *connDriver) close() {
	if d.otherRelease != nil {
		close(d.otherRelease)
		d.otherOut.Wait()
		d.otherRelease = nil
	}
}

// start launches request id for src and reports whether it was admitted (entered the handler).
func (d *connDriver) start(id int, src string) (admitted bool, status int) {
	rel := make(chan bool, 1)
	d.mu.Lock()
	d.release[id] = rel
	d.mu.Unlock()
	go func() {
		rec := httptest.NewRecorder()
		req := httptest.NewRequest("GET", "http://x.test/", nil)
		req.Header.Set("X-Src", src)
		if d.longNames {
			req.Header.Set("X-Src", connLongPrefix+src)
		}
		req.Header.Set("X-Id", sfmt("%d", id))
		if d.byIP {
			req.RemoteAddr = connPeer(src, id)
		}
		if d.byHost {
			req.Host = connHost(src)
		}
		{
			// every request has a cancellable context, as under a real server; the driver may cancel it mid-flight
			ctx, cancel := context.WithCancel(req.Context())
			req = req.WithContext(ctx)
			d.mu.Lock()
			d.cancels[id] = cancel
			d.mu.Unlock()
		}
		if id%7 == 5 {
			// the client has already gone away (or an outer timeout fired) when the request reaches the limiter: it is a
			// request like any other for the accounting
			ctx, cancel := context.WithCancel(req.Context())
			cancel()
			req = req.WithContext(ctx)
		}
		pan := false
		func() {
			defer func() {
				if recover() != nil {
					pan = true
				}
			}()
			d.cl.ServeHTTP(rec, req)
		}()
		d.done <- connDone{id, rec.Code, pan}
	}()
	select {
	case <-d.entered:
		return true, 0
	case dn := <-d.done:
		return false, dn.status
	case <-time.After(60 * time.Second):
		return false, -1
	}
}

func (d *connDriver) finish(id int, panicIt bool) (connDone, bool) {
	d.mu.Lock()
	rel := d.release[id]
	d.mu.Unlock()
	rel <- panicIt
	select {
	case dn := <-d.done:
		return dn, true
	case <-time.After(60 * time.Second):
		return connDone{}, false
	}
}

type connStep struct {
	Op  string `json:"op"` // start | finish | panic
	Src string `json:"src"`
}

func genConnScript(r *rand.Rand, nsrc, n int) []connStep {
	var s []connStep
	for i := 0; i < n; i++ {
		src := sfmt("s%d", r.IntN(nsrc))
		switch r.IntN(10) {
		case 0, 1, 2, 3, 4, 5:
			s = append(s, connStep{"start", src})
		case 6, 7:
			s = append(s, connStep{"finish", src})
		case 8:
			if r.IntN(2) == 0 {
				s = append(s, connStep{"finish", src})
			} else if r.IntN(3) == 0 {
				s = append(s, connStep{"rewrap", src})
			} else {
				s = append(s, connStep{"cancel", src}) // the client of an in-flight request goes away; the handler is still running
			}
		default:
			s = append(s, connStep{"panic", src})
		}
	}
	return s
}

// runConnScript executes a script; returns the decisions of the start steps (per source, in order).
func runConnScript(c *Ctx, limit int64, script []connStep, tag string) (decisions map[string][]bool, maxSeen map[string]int64, ok bool) {
	d := newConnDriver(limit)
	defer d.close()
	if d.otherRefused.Load() > 0 {
		c.Violation("controlled/rejected-below-limit", sfmt("a freshly built limiter (limit 1, nothing in flight) rejected the first request of %d of 4 distinct sources: limiters of one process share state, or distinct sources share a token", d.otherRefused.Load()), nil)
		return nil, nil, false
	}
	inflight := map[string][]int{}
	decisions = map[string][]bool{}
	id := 0
	fail := func(key, msg string) {
		c.Violation(key, sfmt("limit %d %s: %s", limit, tag, msg), map[string]any{"limit": limit, "script": script})
	}
	for si, st := range script {
		switch st.Op {
		case "start":
			id++
			cnt := int64(len(inflight[st.Src]))
			adm, status := d.start(id, st.Src)
			if status == -1 {
				fail("controlled/hang", sfmt("step %d: request neither entered the handler nor returned", si))
				return nil, nil, false
			}
			decisions[st.Src] = append(decisions[st.Src], adm)
			want := cnt < limit
			c.Count("arrivals_decided", 1)
			if adm != want {
				key := "controlled/rejected-below-limit"
				if adm {
					key = "controlled/admitted-over-limit"
				}
				fail(key, sfmt("step %d: source %s has %d in flight, arrival admitted=%v (status %d), expected admitted=%v", si, st.Src, cnt, adm, status, want))
				return nil, nil, false
			}
			if adm {
				inflight[st.Src] = append(inflight[st.Src], id)
			} else {
				c.Count("rejections_at_limit", 1)
				if status != http.StatusTooManyRequests {
					fail("controlled/reject-status", sfmt("step %d: rejection answered with status %d, want 429", si, status))
					return nil, nil, false
				}
			}
		case "rewrap":
			// the chain is re-wired at run time (same handler): the requests in flight keep their slots
			d.cl.Wrap(d.next)
			c.Count("rewraps_with_requests_in_flight", 1)
		case "cancel":
			// the request keeps its slot for as long as its handler runs, whatever happened to its client
			if l := inflight[st.Src]; len(l) > 0 {
				d.mu.Lock()
				cancel := d.cancels[l[(si*5)%len(l)]]
				d.mu.Unlock()
				if cancel != nil {
					cancel()
					// give context.AfterFunc style callbacks (they run in their own goroutine) every chance to run
					for y := 0; y < 50; y++ {
						runtime.Gosched()
					}
					time.Sleep(200 * time.Microsecond)
					c.Count("in_flight_requests_cancelled", 1)
				}
			}
		case "finish", "panic":
			l := inflight[st.Src]
			if len(l) == 0 {
				continue
			}
			k := (si * 7) % len(l)
			rid := l[k]
			inflight[st.Src] = append(l[:k:k], l[k+1:]...)
			dn, okk := d.finish(rid, st.Op == "panic")
			if !okk {
				fail("controlled/hang", sfmt("step %d: released request did not return", si))
				return nil, nil, false
			}
			if st.Op == "panic" {
				c.Count("panicking_handlers", 1)
				if !dn.panicked {
					// connlimit may legitimately swallow or propagate; nothing demanded
					c.Count("panics_not_propagated", 1)
				}
			}
		}
	}
	// quiesce: finish everything (alternating normal / panic)
	n := 0
	for src, l := range inflight {
		for _, rid := range l {
			n++
			if _, okk := d.finish(rid, n%2 == 0); !okk {
				fail("controlled/hang", "released request did not return during quiescence")
				return nil, nil, false
			}
		}
		inflight[src] = nil
	}
	// the full maximum must be reachable again for every source seen
	srcs := map[string]bool{}
	for _, st := range script {
		srcs[st.Src] = true
	}
	var names []string
	for s := range srcs {
		names = append(names, s)
	}
	sort.Strings(names)
	for _, src := range names {
		var ids []int
		for k := int64(0); k < limit; k++ {
			id++
			adm, status := d.start(id, src)
			if !adm {
				fail("controlled/slot-leak", sfmt("after all requests ended, probe %d of %d for source %s was rejected (status %d): a slot was not returned", k+1, limit, src, status))
				return nil, nil, false
			}
			ids = append(ids, id)
		}
		id++
		if adm, _ := d.start(id, src); adm {
			fail("controlled/admitted-over-limit", sfmt("probe %d for source %s admitted beyond the limit", limit+1, src))
			return nil, nil, false
		}
		for _, rid := range ids {
			d.finish(rid, false)
		}
		c.Count("quiescent_full_limit_probes", 1)
	}
	d.mu.Lock()
	defer d.mu.Unlock()
	for src, m := range d.maxSeen {
		if m > limit {
			fail("controlled/admitted-over-limit", sfmt("gauge inside the handler saw %d concurrent requests of source %s", m, src))
			return nil, nil, false
		}
	}
	return decisions, d.maxSeen, true
}

func c04Controlled(c *Ctx) {
	c.Cases("script", c.N(3000, 100000), func(i int, r *rand.Rand) {
		limit := int64(r.IntN(6))
		nsrc := 1 + r.IntN(4)
		script := genConnScript(r, nsrc, 20+r.IntN(80))
		if i == 0 {
			limit = 2
			script = []connStep{{"start", "s0"}, {"start", "s0"}, {"start", "s0"}, {"panic", "s0"}, {"start", "s0"}, {"finish", "s0"}, {"finish", "s0"}}
		}
		dec, maxSeen, ok := runConnScript(c, limit, script, "controlled")
		c.Eval()
		if !ok {
			return
		}
		rej := false
		for _, l := range dec {
			for _, a := range l {
				if !a {
					rej = true
				}
			}
		}
		atLimit := false
		for _, m := range maxSeen {
			if m == limit {
				atLimit = true
			}
		}
		if rej && atLimit && limit > 0 {
			c.Nontrivial(sfmt("ctl/%d/%x", limit, hash64(sfmt("%v", script))))
			c.Count("scripts_nontrivial", 1)
		}
		if i < 2 {
			c.Sample(map[string]any{"limit": limit, "script": script, "decisions": dec})
		}
	})
	c.Require("scripts_nontrivial", 2)
	c.Require("panicking_handlers", 1)
}

type connIn struct {
	Src string
	Op  int // 0 acquire, 1 release
}

func c04Free(c *Ctx) {
	c.Cases("free", c.N(300, 8000), func(i int, r *rand.Rand) {
		limit := int64(1 + r.IntN(4))
		nsrc := 1 + r.IntN(2)
		G := 16
		per := 6 + r.IntN(10)
		var clk atomic.Int64
		gauges := make([]atomic.Int64, nsrc)
		var over atomic.Int64
		maxSeen := make([]atomic.Int64, nsrc)
		h := http.HandlerFunc(func(w http.ResponseWriter, req *http.Request) {
			// first statement: the acquire returns here
			acqRet := clk.Add(1)
			st := req.Context().Value(ctxKeyConn{}).(*connReqState)
			st.acqRet = acqRet
			st.entered = true
			n := gauges[st.src].Add(1)
			if n > limit {
				over.Add(1)
			}
			for {
				m := maxSeen[st.src].Load()
				if n <= m || maxSeen[st.src].CompareAndSwap(m, n) {
					break
				}
			}
			if st.hold != nil {
				st.enteredN.Add(1)
				<-st.hold
			}
			for y := 0; y < st.yields; y++ {
				runtime.Gosched()
			}
			gauges[st.src].Add(-1)
			st.relCall = clk.Add(1)
			if st.panics {
				panic("free-running scripted panic")
			}
		})
		cl, err := connlimit.New(h, hdrExtractor, limit)
		if err != nil {
			c.Violation("constructor", err.Error(), nil)
			return
		}
		ops := make([][]porcupine.Operation, G)
		// pre-generate per-goroutine behaviour
		type plan struct {
			src, yields int
			panics      bool
		}
		plans := make([][]plan, G)
		for g := range plans {
			for k := 0; k < per; k++ {
				plans[g] = append(plans[g], plan{r.IntN(nsrc), r.IntN(40), r.IntN(6) == 0})
			}
		}
		var wg sync.WaitGroup
		start := make(chan struct{})
		for g := 0; g < G; g++ {
			wg.Add(1)
			go func(g int) {
				defer wg.Done()
				<-start
				for _, pl := range plans[g] {
					st := &connReqState{src: pl.src, yields: pl.yields, panics: pl.panics}
					req := httptest.NewRequest("GET", "http://x.test/", nil)
					req.Header.Set("X-Src", sfmt("s%d", pl.src))
					req = req.WithContext(contextWith(req.Context(), st))
					rec := httptest.NewRecorder()
					call := clk.Add(1)
					func() {
						defer func() { _ = recover() }()
						cl.ServeHTTP(rec, req)
					}()
					ret := clk.Add(1)
					src := sfmt("s%d", pl.src)
					if st.entered {
						ops[g] = append(ops[g], porcupine.Operation{ClientId: g, Input: connIn{src, 0}, Call: call, Output: true, Return: st.acqRet})
						ops[g] = append(ops[g], porcupine.Operation{ClientId: g, Input: connIn{src, 1}, Call: st.relCall, Output: true, Return: ret})
					} else {
						ops[g] = append(ops[g], porcupine.Operation{ClientId: g, Input: connIn{src, 0}, Call: call, Output: false, Return: ret})
					}
				}
			}(g)
		}
		close(start)
		wg.Wait()
		c.Eval()
		var all []porcupine.Operation
		rejects := 0
		for _, o := range ops {
			for _, op := range o {
				if op.Input.(connIn).Op == 0 && !op.Output.(bool) {
					rejects++
				}
			}
			all = append(all, o...)
		}
		c.Count("free_ops", int64(len(all)))
		c.Count("free_rejections", int64(rejects))
		if over.Load() > 0 {
			c.Violation("free/admitted-over-limit", sfmt("limit %d: gauge inside the handler exceeded the limit %d times", limit, over.Load()), nil)
			return
		}
		model := porcupine.Model{
			Partition: func(history []porcupine.Operation) [][]porcupine.Operation {
				m := map[string][]porcupine.Operation{}
				for _, o := range history {
					k := o.Input.(connIn).Src
					m[k] = append(m[k], o)
				}
				var out [][]porcupine.Operation
				for _, v := range m {
					out = append(out, v)
				}
				return out
			},
			Init: func() interface{} { return int64(0) },
			Step: func(st, in, out interface{}) (bool, interface{}) {
				cnt := st.(int64)
				if in.(connIn).Op == 1 {
					return cnt > 0, cnt - 1
				}
				if out.(bool) {
					return cnt < limit, cnt + 1
				}
				return cnt >= limit, cnt
			},
		}
		res := porcupine.CheckOperationsTimeout(model, all, 30*time.Second)
		c.Count("free_histories", 1)
		switch res {
		case porcupine.Illegal:
			c.Violation("free/not-linearizable", sfmt("limit %d, %d sources: acquire/release history of %d operations (%d rejections) is not linearizable against the counter model: a request was rejected below the limit or admitted above it", limit, nsrc, len(all), rejects), map[string]any{"limit": limit})
			return
		case porcupine.Unknown:
			c.Inconclusive("porcupine timed out")
			return
		}
		// quiescence: the full limit is reachable again
		atLimit := false
		for s := range maxSeen {
			if maxSeen[s].Load() == limit {
				atLimit = true
			}
		}
		for s := 0; s < nsrc; s++ {
			var pw sync.WaitGroup
			var enteredN, rejectedN atomic.Int64
			gate := make(chan struct{})
			for k := int64(0); k < limit; k++ {
				pw.Add(1)
				go func() {
					defer pw.Done()
					st := &connReqState{src: s, hold: gate, enteredN: &enteredN}
					req := httptest.NewRequest("GET", "http://x.test/", nil)
					req.Header.Set("X-Src", sfmt("s%d", s))
					req = req.WithContext(contextWith(req.Context(), st))
					rec := httptest.NewRecorder()
					cl.ServeHTTP(rec, req)
					if !st.entered {
						rejectedN.Add(1)
					}
				}()
			}
			deadline := time.Now().Add(60 * time.Second)
			for enteredN.Load()+rejectedN.Load() < limit && time.Now().Before(deadline) {
				time.Sleep(50 * time.Microsecond)
			}
			got, rj := enteredN.Load(), rejectedN.Load()
			close(gate)
			pw.Wait()
			c.Count("quiescent_full_limit_probes", 1)
			if rj > 0 {
				c.Violation("free/slot-leak", sfmt("limit %d: after the free-running history ended only %d of %d probes of source s%d were admitted concurrently (%d rejected): a slot was not returned", limit, got, limit, s, rj), nil)
				return
			}
		}
		if rejects > 0 && atLimit {
			c.Nontrivial(sfmt("free/%d/%d/%d/%d", limit, nsrc, per, i))
			c.Count("free_nontrivial", 1)
		}
	})
	c.Require("free_nontrivial", 2)
}

type ctxKeyConn struct{}

type connReqState struct {
	src, yields int
	panics      bool
	hold        chan struct{}
	enteredN    *atomic.Int64
	// outputs
	acqRet, relCall int64
	entered         bool
}

func contextWith(ctx context.Context, st *connReqState) context.Context {
	return context.WithValue(ctx, ctxKeyConn{}, st)
}

// c04BlockingWriter: a client that is slow to take the response: the first write blocks until the gate opens.
type c04BlockingWriter struct {
	h       http.Header
	code    int
	gate    chan struct{}
	entered chan struct{}
	once    sync.Once
}

func (w *c04BlockingWriter) Header() http.Header { return w.h }
func (w *c04BlockingWriter) block() {
	w.once.Do(func() { close(w.entered) })
	<-w.gate
}
func (w *c04BlockingWriter) WriteHeader(code int) {
	if w.code == 0 {
		w.code = code
	}
	w.block()
}
func (w *c04BlockingWriter) Write(p []byte) (int, error) {
	if w.code == 0 {
		w.code = 200
	}
	w.block()
	return len(p), nil
}

// c04SlowReject: a rejected request whose 429 is still being written to a slow client holds no slot: once the requests
// that were in flight have finished, the source has nothing in flight and its next request must be admitted.
func c04SlowReject(c *Ctx) {
	c.Cases("slowreject", c.N(200, 4000), func(i int, r *rand.Rand) {
		limit := int64(1 + r.IntN(4))
		d := newConnDriver(limit)
		defer d.close()
		src := sfmt("s%d", r.IntN(3))
		id := 0
		var inflight []int
		for k := int64(0); k < limit; k++ {
			id++
			if adm, st := d.start(id, src); !adm {
				c.Violation("slowreject/setup", sfmt("limit %d: request %d of the source was rejected (status %d) while filling up to the limit", limit, k+1, st), nil)
				return
			}
			inflight = append(inflight, id)
		}
		nrej := 1 + r.IntN(3)
		var ws []*c04BlockingWriter
		var dones []chan struct{}
		for k := 0; k < nrej; k++ {
			id++
			w := &c04BlockingWriter{h: http.Header{}, gate: make(chan struct{}), entered: make(chan struct{})}
			done := make(chan struct{})
			req := httptest.NewRequest("GET", "http://x.test/", nil)
			req.Header.Set("X-Src", src)
			if d.longNames {
				req.Header.Set("X-Src", connLongPrefix+src)
			}
			req.Header.Set("X-Id", sfmt("%d", id))
			if d.byIP {
				req.RemoteAddr = connPeer(src, id)
			}
			if d.byHost {
				req.Host = connHost(src)
			}
			go func() {
				defer close(done)
				defer func() { _ = recover() }()
				d.cl.ServeHTTP(w, req)
			}()
			select {
			case <-w.entered:
			case <-done:
			case <-d.entered:
				c.Eval()
				c.Violation("controlled/admitted-over-limit", sfmt("limit %d: with %d in flight a further request of the source entered the handler", limit, limit), nil)
				return
			case <-time.After(30 * time.Second):
				c.Inconclusive("slowreject: rejected request neither wrote nor returned within 30s")
				return
			}
			ws, dones = append(ws, w), append(dones, done)
		}
		// everything that was in flight finishes
		for _, fid := range inflight {
			if _, ok := d.finish(fid, false); !ok {
				c.Violation("hang", "a released request did not return", nil)
				return
			}
		}
		c.Eval()
		// nothing is in flight for the source (the rejected ones are only being answered): the full maximum is available
		var again []int
		for k := int64(0); k < limit; k++ {
			id++
			adm, st := d.start(id, src)
			if !adm {
				c.Violation("slowreject/rejected-below-limit", sfmt("limit %d: %d requests were in flight and have all finished; %d rejected requests are still being answered (their 429 is blocked in a slow client's write); the source has nothing in flight, yet arrival %d was rejected (status %d)", limit, limit, nrej, k+1, st), nil)
				for _, w := range ws {
					close(w.gate)
				}
				return
			}
			again = append(again, id)
		}
		for _, w := range ws {
			close(w.gate)
		}
		for _, dn := range dones {
			select {
			case <-dn:
			case <-time.After(30 * time.Second):
			}
		}
		for _, w := range ws {
			if w.code != http.StatusTooManyRequests {
				c.Violation("slowreject/status", sfmt("request arriving at the limit was answered %d, want 429", w.code), nil)
				return
			}
		}
		for _, fid := range again {
			d.finish(fid, false)
		}
		c.Nontrivial(sfmt("slowreject/%d/%d/%d", limit, nrej, i))
		c.Count("slowreject_nontrivial", 1)
	})
	c.Require("slowreject_nontrivial", 2)
}
