package main

import (
	"sync/atomic"
	"math/rand/v2"
	"net/http"
	"net/http/httptest"
	"sort"
	"strconv"
	"sync"
	"time"

	"github.com/vulcand/oxy/v2/ratelimit"
)

func init() {
	register(&Property{
		ID:    "C14",
		Level: "exploration",
		Rule: "rate limiter: generated per-source request scripts (times, amounts) merged into one multi-source history (2-12 sources, capacities 1..default, sources <= capacity) on the frozen clock; each source's projected decision sequence (admit/429 and advertised delay) must equal the sequence it gets when run alone on the same clock schedule (differential against the real code); " +
			"a quarter of the merge cases use per-source cached rate sets that are re-configured in place, and requests whose rate extractor faults (recovered panic) after which every request runs under a watchdog; " +
			"capacity pressure in victim-unambiguous form (creation order = last-use order, distinct expiry seconds): exactly the source nearest to expiry restarts afresh, every other drained source stays rejected; " +
			"part plans: per-request rate plans (ExtractRates) with different longest periods, so that a tracked source's remembered lifetime grows and shrinks; every decision of a random multi-source history over a full table is predicted by a reference table (entry lifetime = 10 x longest period + 1s from the last request, victim = nearest to expiry, nothing refills during a case); " +
			"connection limiter: merged controlled start/finish scripts vs the solo run of each source; concurrent variant (race build): one goroutine per source; non-trivial = merged history in which >=2 sources each saw an admission and a rejection; distinct by (rates, capacity, script)",
		Assumptions: []string{"frozen library clock (hook); the clock is advanced only between requests (at barriers in the concurrent variant)", "overflow shapes whose victim depends on heap tie-breaking are executed but not decided"},
		Parts: []Part{
			{Name: "rate", Shards: 8, Fn: c14Rate},
			{Name: "evict", Shards: 4, Fn: c14Evict},
			{Name: "lru", Shards: 8, Fn: c14LRU},
			{Name: "plans", Shards: 4, Fn: c14Plans},
			{Name: "conn", Shards: 8, Fn: c14Conn},
			{Name: "rateconc", Race: true, Shards: 4, Fn: c14RateConc},
		},
	})
}

type c14Ev struct {
	T   time.Duration `json:"t"` // offset from start
	Src int           `json:"src"`
	Amt int64         `json:"amt"`
	// Re != nil: not a request but a run-time re-configuration: the rate set Src is limited by (Src < 0: the limiter's
	// shared default set) is changed in place to these rates
	Re []rateSpec `json:"reconfigure,omitempty"`
	// Fault: the rate extractor misbehaves for this one request (returns no rate set at all): the request dies inside the
	// limiter (net/http would recover the panic per connection); nobody else's decisions may change
	Fault bool `json:"extractor_fault,omitempty"`
}

// c14Hung is set when a request did not return from the limiter within the watchdog (everything is blocked).
var c14Hung, c14EverHung atomic.Bool

type c14Dec struct {
	Admitted bool
	Status   int
	Delay    string
}

func c14Serve(tl *ratelimit.TokenLimiter, admitted *int, src int, amt int64) c14Dec {
	req := httptest.NewRequest("GET", "http://x.test/", nil)
	req.Header.Set("X-Src", sfmt("s%d", src))
	req.Header.Set("X-Amt", strconv.FormatInt(amt, 10))
	rec := httptest.NewRecorder()
	before := *admitted
	tl.ServeHTTP(rec, req)
	return c14Dec{*admitted == before+1, rec.Code, rec.Header().Get("X-Retry-In")}
}

func c14RunRate(rs []rateSpec, capacity int, start time.Time, evs []c14Ev, only int) map[int][]c14Dec {
	return c14RunRateMode(rs, capacity, start, evs, only, false)
}

// perSrcSets: every source is limited by its own long-lived *RateSet object handed out by a rate extractor (a per-tenant
// cache); re-configuration events change those objects (or the shared default set) in place.
func c14RunRateMode(rs []rateSpec, capacity int, start time.Time, evs []c14Ev, only int, perSrcSets bool) map[int][]c14Dec {
	freeze(start)
	defer unfreeze()
	n := new(int)
	opts := []ratelimit.TokenLimiterOption{}
	if capacity > 0 {
		opts = append(opts, ratelimit.Capacity(capacity))
	}
	def := mkRateSet(rs)
	sets := map[string]*ratelimit.RateSet{}
	if perSrcSets {
		opts = append(opts, ratelimit.ExtractRates(ratelimit.RateExtractorFunc(func(req *http.Request) (*ratelimit.RateSet, error) {
			if req.Header.Get("X-Fault") != "" {
				return nil, nil
			}
			k := req.Header.Get("X-Src")
			if sets[k] == nil {
				sets[k] = mkRateSet(rs)
			}
			return sets[k], nil
		})))
	}
	tl, err := ratelimit.New(http.HandlerFunc(func(http.ResponseWriter, *http.Request) { *n++ }), hdrExtractor, def, opts...)
	if err != nil {
		panic(err)
	}
	out := map[int][]c14Dec{}
	var cur time.Duration
	faulted := false
	for _, e := range evs {
		if only >= 0 && e.Src != only && !(e.Re != nil && e.Src < 0) {
			continue
		}
		if e.T > cur {
			advance(e.T - cur)
			cur = e.T
		}
		if e.Re != nil {
			set := def
			if e.Src >= 0 {
				k := sfmt("s%d", e.Src)
				if sets[k] == nil {
					sets[k] = mkRateSet(rs)
				}
				set = sets[k]
			}
			for _, x := range e.Re {
				if err := set.Add(x.Period, x.Average, x.Burst); err != nil {
					panic(err)
				}
			}
			continue
		}
		if e.Fault {
			faulted = true
			func() {
				defer func() { _ = recover() }()
				req := httptest.NewRequest("GET", "http://x.test/", nil)
				req.Header.Set("X-Src", sfmt("s%d", e.Src))
				req.Header.Set("X-Fault", "1")
				tl.ServeHTTP(httptest.NewRecorder(), req)
			}()
			continue
		}
		if faulted {
			// after a faulted request every further one runs under a watchdog
			ch := make(chan c14Dec, 1)
			go func() { ch <- c14Serve(tl, n, e.Src, e.Amt) }()
			select {
			case d := <-ch:
				out[e.Src] = append(out[e.Src], d)
			case <-time.After(20 * time.Second):
				c14Hung.Store(true)
				return out
			}
			continue
		}
		out[e.Src] = append(out[e.Src], c14Serve(tl, n, e.Src, e.Amt))
	}
	return out
}

func c14GenEvents(r *rand.Rand, rs []rateSpec, nsrc, n int) []c14Ev {
	tok := rs[0].Period / time.Duration(rs[0].Average)
	var minBurst int64 = 1 << 62
	for _, x := range rs {
		if x.Burst < minBurst {
			minBurst = x.Burst
		}
	}
	ttl := rateTTL(rs)
	var evs []c14Ev
	var t time.Duration
	for len(evs) < n {
		switch r.IntN(12) {
		case 0:
			t += ttl + time.Duration(r.IntN(3)-1)*time.Second + time.Duration(r.Int64N(int64(time.Second)))
		case 1, 2:
			t += time.Duration(r.Int64N(int64(4*tok) + 1))
		case 3:
			t += tok
		default:
			t += time.Duration(r.Int64N(int64(tok)/4 + 1))
		}
		amt := int64(1)
		switch r.IntN(8) {
		case 0:
			amt = minBurst + 1
		case 1:
			amt = 1 + r.Int64N(minBurst)
		case 2:
			amt = minBurst
		}
		src := r.IntN(nsrc)
		if r.IntN(3) == 0 {
			src = 0 // one hot source
		}
		evs = append(evs, c14Ev{T: t, Src: src, Amt: amt})
	}
	return evs
}

func c14Rate(c *Ctx) {
	c.Cases("merge", c.N(1200, 40000), func(i int, r *rand.Rand) {
		rs := genRates(r, 2)
		nsrc := 2 + r.IntN(11)
		capacity := pick(r, []int{0, nsrc, nsrc + 1, nsrc + 5, 64})
		if capacity != 0 && capacity < nsrc {
			capacity = nsrc
		}
		start := baseTime.Add(time.Duration(r.Int64N(int64(time.Hour)))).Add(time.Duration(r.Int64N(1e9)))
		evs := c14GenEvents(r, rs, nsrc, 150+r.IntN(500))
		// run-time re-configuration: rate sets changed in place (same periods, new average/burst) between requests
		reconf := i%4 == 3
		perSrc := reconf && r.IntN(3) > 0
		if reconf {
			var out []c14Ev
			for _, e := range evs {
				if r.IntN(25) == 0 {
					re := c14Ev{T: e.T, Src: -1}
					if perSrc {
						re.Src = r.IntN(nsrc)
						if r.IntN(2) == 0 {
							re.Src = 0
						}
					}
					for _, x := range rs {
						avg := int64(1 + r.IntN(20))
						re.Re = append(re.Re, rateSpec{x.Period, avg, 1 + r.Int64N(5*avg)})
					}
					out = append(out, re)
					c.Count("reconfigurations_in_place", 1)
				}
				out = append(out, e)
			}
			evs = out
		}
		if perSrc && r.IntN(2) == 0 && !c14EverHung.Load() {
			// one source's extractor call faults once or twice somewhere in the history
			for k := 1 + r.IntN(2); k > 0; k-- {
				at := r.IntN(len(evs))
				f := c14Ev{T: evs[at].T, Src: r.IntN(nsrc), Fault: true}
				evs = append(evs[:at:at], append([]c14Ev{f}, evs[at:]...)...)
			}
			c.Count("extractor_faults_injected", 1)
		}
		merged := c14RunRateMode(rs, capacity, start, evs, -1, perSrc)
		c.Eval()
		if c14Hung.Load() {
			c.Violation("rate/hang-after-fault", sfmt("rates %v, %d sources: after one request died inside the limiter (its rate extractor returned no rate set) a later request of another source did not return within 20s: the limiter is blocked for everybody", rs, nsrc), map[string]any{"rates": rs, "sources": nsrc})
			c14Hung.Store(false)
			c14EverHung.Store(true) // reported once; the remaining cases of this process run without fault injection
			return
		}
		both := 0
		for s := 0; s < nsrc; s++ {
			solo := c14RunRateMode(rs, capacity, start, evs, s, perSrc)[s]
			m := merged[s]
			c.Count("projections_compared", 1)
			if len(solo) != len(m) {
				c.Violation("rate/projection-length", "internal: projection lengths differ", nil)
				return
			}
			adm, rej := false, false
			for k := range m {
				c.Count("decisions_compared", 1)
				if m[k] != solo[k] {
					c.Violation("rate/depends-on-other-sources", sfmt("rates %v capacity %d, %d sources: decision %d of source s%d is %+v in the merged history but %+v when the source runs alone on the same clock schedule", rs, capacity, nsrc, k, s, m[k], solo[k]),
						map[string]any{"rates": rs, "capacity": capacity, "sources": nsrc, "events": evs[:min(len(evs), 60)]})
					return
				}
				if m[k].Admitted {
					adm = true
				} else if m[k].Status == 429 {
					rej = true
				}
			}
			if adm && rej {
				both++
			}
		}
		if both >= 2 {
			c.Nontrivial(sfmt("rate/%v/%d/%d/%x", rs, capacity, nsrc, hash64(sfmt("%v", evs[:min(len(evs), 200)]))))
			c.Count("merges_nontrivial", 1)
		}
		if i < 2 {
			c.Sample(map[string]any{"rates": rs, "capacity": capacity, "sources": nsrc, "events_prefix": evs[:min(len(evs), 8)]})
		}
	})
	c.Require("merges_nontrivial", 2)
}

// c14Evict: more sources than capacity, victim-unambiguous shape.
func c14Evict(c *Ctx) {
	c.Cases("evict", c.N(1000, 30000), func(i int, r *rand.Rand) {
		capacity := 1 + r.IntN(8)
		period := pick(r, []time.Duration{30 * time.Minute, time.Hour, 2 * time.Hour}) // one token per >= 30 min: nothing refills during the case
		burst := int64(1 + r.IntN(4))
		rs := []rateSpec{{period, 1, burst}}
		freeze(baseTime.Add(time.Duration(r.Int64N(1e9))))
		defer unfreeze()
		n := new(int)
		tl, err := ratelimit.New(http.HandlerFunc(func(http.ResponseWriter, *http.Request) { *n++ }), hdrExtractor, mkRateSet(rs), ratelimit.Capacity(capacity))
		if err != nil {
			panic(err)
		}
		desc0 := "fresh table"
		drain := func(src int) int64 {
			var k int64
			for k <= burst+1 {
				if !c14Serve(tl, n, src, 1).Admitted {
					return k
				}
				k++
			}
			return k
		}
		// pre-phase: some of the sources were seen long ago and have expired; they come back through the
		// "entry found but expired" path of the table when the fill phase reaches them
		if r.IntN(2) == 0 {
			for s := 0; s < capacity; s++ {
				if r.IntN(2) == 0 {
					c14Serve(tl, n, s, 1)
					advance(time.Second)
				}
			}
			advance(rateTTL(rs) + time.Duration(1+r.IntN(5))*time.Second)
			desc0 = "with expired-and-returning sources"
			c.Count("evict_cases_with_expired_returning_sources", 1)
		}
		// fill: sources 0..capacity-1 created and last used in this order, one whole second apart, each drained
		for s := 0; s < capacity; s++ {
			if got := drain(s); got != burst {
				c.Violation("evict/fresh-source", sfmt("fresh source s%d drained %d tokens, want burst %d", s, got, burst), nil)
				return
			}
			advance(time.Second + time.Duration(r.IntN(1000))*time.Microsecond)
		}
		c.Eval()
		desc := map[string]any{"capacity": capacity, "rate": rs, "newcomers": 0, "shape": desc0}
		// newcomers arrive one by one; each insertion may forget exactly the oldest remaining source
		newcomers := 1 + r.IntN(capacity)
		desc["newcomers"] = newcomers
		for k := 0; k < newcomers; k++ {
			src := capacity + k
			if got := drain(src); got != burst {
				c.Violation("evict/fresh-source", sfmt("newcomer s%d drained %d tokens, want burst %d", src, got, burst), desc)
				return
			}
			// every remembered source is probed in the order that keeps "last-use order = creation order",
			// one whole second apart so that expiry seconds stay distinct
			order := []int{}
			for s := k + 1; s < capacity; s++ {
				order = append(order, s)
			}
			for s := capacity; s <= src; s++ {
				order = append(order, s)
			}
			for _, s := range order {
				advance(time.Second)
				if c14Serve(tl, n, s, 1).Admitted {
					c.Violation("evict/wrong-victim", sfmt("capacity %d: after newcomer s%d arrived, drained source s%d (not the one nearest to expiry) was admitted again: it was forgotten (expected victim: the least recently used source)", capacity, src, s), desc)
					return
				}
				c.Count("survivor_checks", 1)
			}
		}
		// the victims (original 0..newcomers-1, those that were evicted) start afresh when they come back
		{
			v := newcomers - 1
			got := drain(v)
			c.Count("victim_checks", 1)
			if got != burst {
				c.Violation("evict/victim-not-fresh", sfmt("capacity %d: the source nearest to expiry (s%d) should have been forgotten and start afresh, but drained %d of %d", capacity, v, got, burst), desc)
				return
			}
		}
		c.Nontrivial(sfmt("evict/%d/%v/%d/%d", capacity, period, burst, newcomers))
		c.Count("evict_nontrivial", 1)
		if i < 2 {
			c.Sample(desc)
		}
	})
	c.Require("evict_nontrivial", 2)
}

func c14Conn(c *Ctx) {
	c.Cases("conn", c.N(1000, 30000), func(i int, r *rand.Rand) {
		limit := int64(1 + r.IntN(4))
		nsrc := 2 + r.IntN(3)
		script := genConnScript(r, nsrc, 30+r.IntN(90))
		merged, _, ok := runConnScript(c, limit, script, "merged")
		c.Eval()
		if !ok {
			return
		}
		both := 0
		for s := 0; s < nsrc; s++ {
			src := sfmt("s%d", s)
			var solo []connStep
			for _, st := range script {
				if st.Src == src {
					solo = append(solo, st)
				}
			}
			// the finish steps pick "the (si*7)%len-th in-flight request": indexes differ between merged and solo
			// runs, but decisions depend only on counts, which is what the property states
			sd, _, ok := runConnScript(c, limit, solo, "solo")
			if !ok {
				return
			}
			c.Count("conn_projections_compared", 1)
			a, b := merged[src], sd[src]
			if len(a) != len(b) {
				c.Violation("conn/depends-on-other-sources", sfmt("limit %d: source %s made %d decisions merged and %d alone", limit, src, len(a), len(b)), map[string]any{"script": script})
				return
			}
			adm, rej := false, false
			for k := range a {
				if a[k] != b[k] {
					c.Violation("conn/depends-on-other-sources", sfmt("limit %d: decision %d of source %s is %v merged with %d other sources but %v alone", limit, k, src, a[k], nsrc-1, b[k]), map[string]any{"script": script})
					return
				}
				if a[k] {
					adm = true
				} else {
					rej = true
				}
			}
			if adm && rej {
				both++
			}
		}
		if both >= 2 {
			c.Nontrivial(sfmt("conn/%d/%x", limit, hash64(sfmt("%v", script))))
			c.Count("conn_merges_nontrivial", 1)
		}
	})
	c.Require("conn_merges_nontrivial", 2)
}

// c14RateConc: one goroutine per source, clock advanced only at barriers; each source's sequence must equal its solo run.
func c14RateConc(c *Ctx) {
	c.Cases("rateconc", c.N(120, 3000), func(i int, r *rand.Rand) {
		rs := genRates(r, 2)
		nsrc := 2 + r.IntN(7)
		start := baseTime.Add(time.Duration(r.Int64N(1e9)))
		rounds := 10 + r.IntN(30)
		tok := rs[0].Period / time.Duration(rs[0].Average)
		type round struct {
			adv  time.Duration
			amts [][]int64 // per source
		}
		var plan []round
		for k := 0; k < rounds; k++ {
			rd := round{adv: time.Duration(r.Int64N(int64(3*tok) + 1))}
			for s := 0; s < nsrc; s++ {
				var a []int64
				for q := r.IntN(6); q > 0; q-- {
					a = append(a, int64(1+r.IntN(2)))
				}
				rd.amts = append(rd.amts, a)
			}
			plan = append(plan, rd)
		}
		run := func(only int) map[int][]c14Dec {
			freeze(start)
			defer unfreeze()
			var mu sync.Mutex
			admittedBy := map[string]int{}
			tl, err := ratelimit.New(http.HandlerFunc(func(w http.ResponseWriter, req *http.Request) {
				mu.Lock()
				admittedBy[req.Header.Get("X-Src")]++
				mu.Unlock()
			}), hdrExtractor, mkRateSet(rs))
			if err != nil {
				panic(err)
			}
			out := map[int][]c14Dec{}
			var omu sync.Mutex
			for _, rd := range plan {
				advance(rd.adv)
				var wg sync.WaitGroup
				for s := 0; s < nsrc; s++ {
					if only >= 0 && s != only {
						continue
					}
					wg.Add(1)
					go func(s int) {
						defer wg.Done()
						var local []c14Dec
						for _, amt := range rd.amts[s] {
							req := httptest.NewRequest("GET", "http://x.test/", nil)
							req.Header.Set("X-Src", sfmt("s%d", s))
							req.Header.Set("X-Amt", strconv.FormatInt(amt, 10))
							rec := httptest.NewRecorder()
							tl.ServeHTTP(rec, req)
							local = append(local, c14Dec{rec.Code == 200, rec.Code, rec.Header().Get("X-Retry-In")})
						}
						omu.Lock()
						out[s] = append(out[s], local...)
						omu.Unlock()
					}(s)
				}
				wg.Wait()
			}
			return out
		}
		merged := run(-1)
		c.Eval()
		srcs := make([]int, 0, nsrc)
		for s := 0; s < nsrc; s++ {
			srcs = append(srcs, s)
		}
		sort.Ints(srcs)
		both := 0
		for _, s := range srcs {
			solo := run(s)[s]
			m := merged[s]
			adm, rej := false, false
			for k := range m {
				if k >= len(solo) || m[k] != solo[k] {
					c.Violation("rate/depends-on-other-sources", sfmt("concurrent: rates %v, %d sources: decision %d of source s%d differs from its solo run (%+v)", rs, nsrc, k, s, m[k]), map[string]any{"rates": rs})
					return
				}
				if m[k].Admitted {
					adm = true
				} else {
					rej = true
				}
			}
			c.Count("conc_projections_compared", 1)
			if adm && rej {
				both++
			}
		}
		if both >= 2 {
			c.Nontrivial(sfmt("rateconc/%v/%d/%d", rs, nsrc, rounds))
			c.Count("rateconc_nontrivial", 1)
		}
	})
	c.Require("rateconc_nontrivial", 2)
}

// c14LRU: capacity pressure with arbitrary use orders. Every request (admitted or rejected) counts as a use and
// every use happens in its own second, so "the tracked source nearest to expiry" is always unique: it is the least
// recently used one. The reference keeps (tracked?, drained?) per source; observations are the request outcomes.
func c14LRU(c *Ctx) {
	c.Cases("lru", c.N(600, 20000), func(i int, r *rand.Rand) {
		capacity := 1 + r.IntN(8)
		period := pick(r, []time.Duration{30 * time.Minute, time.Hour, 2 * time.Hour}) // nothing refills during a case
		burst := int64(1 + r.IntN(3))
		rs := []rateSpec{{period, 1, burst}}
		freeze(baseTime.Add(time.Duration(r.Int64N(1e9))))
		defer unfreeze()
		n := new(int)
		tl, err := ratelimit.New(http.HandlerFunc(func(http.ResponseWriter, *http.Request) { *n++ }), hdrExtractor, mkRateSet(rs), ratelimit.Capacity(capacity))
		if err != nil {
			panic(err)
		}
		universe := capacity + 1 + r.IntN(4)
		lastUse := map[int]int{} // tracked sources -> step of last use
		var script []string
		evictions, retouches := 0, 0
		steps := 20 + r.IntN(80)
		for st := 1; st <= steps; st++ {
			advance(time.Second + time.Duration(r.IntN(900))*time.Millisecond)
			src := r.IntN(universe)
			if _, tracked := lastUse[src]; tracked {
				// remembered and drained: one token must be refused
				d := c14Serve(tl, n, src, 1)
				script = append(script, sfmt("s%d:probe", src))
				c.Count("lru_decisions", 1)
				if d.Admitted {
					c.Violation("evict/wrong-victim", sfmt("capacity %d: source s%d is tracked (last used at step %d, tracked sources and their last use: %v) and drained, yet step %d admitted it: it had been forgotten although it was not the least recently used source", capacity, src, lastUse[src], lastUse, st),
						map[string]any{"capacity": capacity, "rate": rs, "script": script})
					return
				}
				lastUse[src] = st
				retouches++
				continue
			}
			// not tracked: it starts afresh; if the table is full exactly the least recently used source is forgotten
			if len(lastUse) >= capacity {
				victim, oldest := -1, 1<<30
				for s, u := range lastUse {
					if u < oldest {
						victim, oldest = s, u
					}
				}
				delete(lastUse, victim)
				evictions++
				script = append(script, sfmt("s%d:new(evicts s%d)", src, victim))
			} else {
				script = append(script, sfmt("s%d:new", src))
			}
			var k int64
			for k <= burst+1 {
				if !c14Serve(tl, n, src, 1).Admitted {
					break
				}
				k++
			}
			c.Count("lru_decisions", 1)
			if k != burst {
				key := "evict/victim-not-fresh"
				c.Violation(key, sfmt("capacity %d: source s%d is not tracked by the reference (forgotten or new) at step %d and must start with its full burst %d, but drained %d (tracked: %v)", capacity, src, st, burst, k, lastUse),
					map[string]any{"capacity": capacity, "rate": rs, "script": script})
				return
			}
			lastUse[src] = st
		}
		c.Eval()
		if evictions >= 2 && retouches >= 2 {
			c.Nontrivial(sfmt("lru/%d/%v/%x", capacity, period, hash64(sfmt("%v", script))))
			c.Count("lru_nontrivial", 1)
		}
		c.Count("lru_evictions", int64(evictions))
		if i < 2 {
			c.Sample(map[string]any{"capacity": capacity, "rate": rs, "script_prefix": script[:min(len(script), 14)]})
		}
	})
	c.Require("lru_nontrivial", 2)
}

// c14Plans: sources move between rate plans whose longest periods differ, so the time a source is remembered (10 x the
// longest period + 1s after its last request) both grows and shrinks while it is tracked. A reference table predicts
// every decision: when the table is full a newcomer displaces exactly the tracked source nearest to expiry.
func c14Plans(c *Ctx) {
	c.Cases("plans", c.N(600, 20000), func(i int, r *rand.Rand) {
		capacity := 1 + r.IntN(6)
		if i%5 == 4 { // larger tables
			capacity = pick(r, []int{16, 17, 32, 40})
		}
		b0, b1 := int64(1+r.IntN(2)), int64(1+r.IntN(3))
		plans := [][]rateSpec{
			{{10 * time.Minute, 1, b0}},
			{{10 * time.Minute, 1, b0}, {2 * time.Hour, 1, b1}},
		}
		ttl := []int64{6001, 72001}
		sets := []*ratelimit.RateSet{mkRateSet(plans[0]), mkRateSet(plans[1])}
		freeze(baseTime.Add(time.Duration(r.Int64N(1e9))))
		defer unfreeze()
		n := new(int)
		tl, err := ratelimit.New(http.HandlerFunc(func(http.ResponseWriter, *http.Request) { *n++ }), hdrExtractor, sets[0], ratelimit.Capacity(capacity),
			ratelimit.ExtractRates(ratelimit.RateExtractorFunc(func(req *http.Request) (*ratelimit.RateSet, error) {
				if req.Header.Get("X-Plan") == "1" {
					return sets[1], nil
				}
				return sets[0], nil
			})))
		if err != nil {
			panic(err)
		}
		type entry struct {
			expiry int64
			tokens map[time.Duration]int64
		}
		model := map[int]*entry{}
		nsrc := capacity + 1 + r.IntN(3)
		var script []string
		evictions, shrinks := 0, 0
		nops := 30 + r.IntN(60)
		if capacity >= 16 {
			nops = 3*capacity + r.IntN(40)
		}
		for q := 0; q < nops; q++ {
			advance(time.Second + time.Duration(r.IntN(900))*time.Millisecond)
			src, plan := r.IntN(nsrc), r.IntN(2)
			if r.IntN(3) == 0 {
				src = r.IntN(min(nsrc, 2)) // hot sources that keep switching plans
			}
			nowU := now().Unix()
			e := model[src]
			if e == nil {
				if len(model) >= capacity {
					victim, best := -1, int64(1<<62)
					for s, x := range model {
						if x.expiry < best {
							victim, best = s, x.expiry
						}
					}
					delete(model, victim)
					evictions++
					script = append(script, sfmt("(s%d forgotten)", victim))
				}
				e = &entry{tokens: map[time.Duration]int64{}}
				model[src] = e
			}
			for p := range e.tokens {
				keep := false
				for _, x := range plans[plan] {
					keep = keep || x.Period == p
				}
				if !keep {
					delete(e.tokens, p)
				}
			}
			for _, x := range plans[plan] {
				if _, ok := e.tokens[x.Period]; !ok {
					e.tokens[x.Period] = x.Burst
				}
			}
			if ne := nowU + ttl[plan]; ne < e.expiry {
				shrinks++
			}
			e.expiry = nowU + ttl[plan]
			want := true
			for _, t := range e.tokens {
				want = want && t >= 1
			}
			if want {
				for p := range e.tokens {
					e.tokens[p]--
				}
			}
			req := httptest.NewRequest("GET", "http://x.test/", nil)
			req.Header.Set("X-Src", sfmt("s%d", src))
			req.Header.Set("X-Plan", sfmt("%d", plan))
			before := *n
			tl.ServeHTTP(httptest.NewRecorder(), req)
			got := *n == before+1
			script = append(script, sfmt("s%d/plan%d=%v", src, plan, got))
			c.Count("plan_decisions_compared", 1)
			if got != want {
				c.Violation("plans/decision", sfmt("capacity %d, plans %v: request %d (source s%d, plan %d) admitted=%v, the reference table (lifetime 10 x longest period + 1s from the last request; a newcomer displaces the source nearest to expiry) predicts %v", capacity, plans, q, src, plan, got, want),
					map[string]any{"capacity": capacity, "plans": plans, "script": script})
				return
			}
		}
		c.Eval()
		if evictions >= 1 && shrinks >= 1 {
			c.Nontrivial(sfmt("plans/%d/%d/%d/%x", capacity, b0, b1, hash64(sfmt("%v", script))))
			c.Count("plans_nontrivial", 1)
		}
		c.Count("plan_evictions", int64(evictions))
		c.Count("plan_lifetime_shrinks", int64(shrinks))
	})
	c.Require("plans_nontrivial", 2)
}
