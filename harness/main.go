package main

import (
	"bufio"
	"encoding/json"
	"flag"
	"fmt"
	"os"
	"os/exec"
	"path/filepath"
	"regexp"
	"runtime"
	"sort"
	"strconv"
	"strings"
	"sync"
	"syscall"
	"time"
)

func main() {
	if len(os.Args) < 2 {
		fmt.Fprintln(os.Stderr, "usage: vcheck drive|child|list ...")
		os.Exit(2)
	}
	switch os.Args[1] {
	case "drive":
		os.Exit(drive(os.Args[2:]))
	case "child":
		os.Exit(child(os.Args[2:]))
	case "list":
		ids := []string{}
		for id := range registry {
			ids = append(ids, id)
		}
		sort.Strings(ids)
		for _, id := range ids {
			fmt.Println(id)
		}
	default:
		fmt.Fprintln(os.Stderr, "unknown mode", os.Args[1])
		os.Exit(2)
	}
}

// ---------------- child ----------------

func child(args []string) int {
	fs := flag.NewFlagSet("child", flag.ExitOnError)
	prop := fs.String("prop", "", "")
	part := fs.String("part", "", "")
	tier := fs.String("tier", "quick", "")
	seed := fs.Uint64("seed", 1, "")
	shard := fs.Int("shard", 0, "")
	shards := fs.Int("shards", 1, "")
	out := fs.String("out", "", "")
	scratch := fs.String("scratch", "", "")
	cs := fs.Int("case", -1, "")
	_ = fs.Parse(args)
	p := registry[*prop]
	if p == nil {
		fmt.Fprintln(os.Stderr, "unknown property", *prop)
		return 2
	}
	for _, pt := range p.Parts {
		if pt.Name != *part {
			continue
		}
		c := newCtx(*prop, *part, *tier, *seed, *shard, *shards, *cs, *scratch)
		pt.Fn(c)
		if err := c.finish(*out); err != nil {
			fmt.Fprintln(os.Stderr, "write result:", err)
			return 2
		}
		return 0
	}
	fmt.Fprintln(os.Stderr, "unknown part", *part)
	return 2
}

// ---------------- driver ----------------

type knownFinding struct {
	Property string `json:"property"`
	Key      string `json:"key"`
	What     string `json:"what"`
	Status   string `json:"status"` // open | fixed
	Commit   string `json:"commit,omitempty"`
	Line     string `json:"line,omitempty"`
}

type knownFile struct {
	Findings []knownFinding `json:"findings"`
}

type replayFile struct {
	Prop      string    `json:"prop"`
	Part      string    `json:"part"`
	Tier      string    `json:"tier"`
	Seed      uint64    `json:"seed"`
	Case      int       `json:"case"`
	Violation Violation `json:"violation"`
	How       string    `json:"how"`
}

type shardRun struct {
	part     *Part
	shard    int
	shards   int
	res      *PartResult
	err      string // inconclusive reason
	raceLogs []string
	logPath  string
}

func envOr(k, d string) string {
	if v := os.Getenv(k); v != "" {
		return v
	}
	return d
}

func drive(args []string) int {
	fs := flag.NewFlagSet("drive", flag.ExitOnError)
	propID := fs.String("prop", "", "")
	tier := fs.String("tier", envOr("VERIF_TIER", "quick"), "")
	replay := fs.String("replay", "", "")
	only := fs.String("part", "", "run only this part (debugging; evidence is still written)")
	_ = fs.Parse(args)
	root := envOr("VERIF_ROOT", "/verif")
	outRoot := envOr("VERIF_OUT", root) // evidence and replays go here (development: runs against scratch copies)
	seed := uint64(20260928)
	if s := os.Getenv("VERIF_SEED"); s != "" {
		if v, err := strconv.ParseInt(s, 10, 64); err == nil {
			seed = uint64(v)
		}
	}
	start := time.Now()
	p := registry[*propID]
	if p == nil {
		fmt.Fprintln(os.Stderr, "unknown property", *propID)
		return 2
	}
	var rf *replayFile
	if *replay != "" {
		b, err := os.ReadFile(*replay)
		if err != nil {
			fmt.Fprintln(os.Stderr, err)
			return 2
		}
		rf = &replayFile{}
		if err := json.Unmarshal(b, rf); err != nil {
			fmt.Fprintln(os.Stderr, err)
			return 2
		}
		seed = rf.Seed
		*tier = rf.Tier
	}
	scratchBase := envOr("VERIF_SCRATCH", os.TempDir())
	scratch, err := os.MkdirTemp(scratchBase, "vcheck-"+p.ID+"-")
	if err != nil {
		fmt.Fprintln(os.Stderr, err)
		return 2
	}
	if os.Getenv("VERIF_KEEP") != "" {
		fmt.Println("scratch kept at", scratch)
	} else {
		defer os.RemoveAll(scratch)
	}

	// plan
	var runs []*shardRun
	for i := range p.Parts {
		pt := &p.Parts[i]
		if rf != nil && pt.Name != rf.Part {
			continue
		}
		if *only != "" && pt.Name != *only {
			continue
		}
		n := pt.Shards
		if n < 1 {
			n = 1
		}
		if n > runtime.NumCPU() {
			n = runtime.NumCPU()
		}
		if rf != nil {
			n = 1
		}
		for s := 0; s < n; s++ {
			runs = append(runs, &shardRun{part: pt, shard: s, shards: n})
		}
	}
	sem := make(chan struct{}, runtime.NumCPU())
	var wg sync.WaitGroup
	for _, r := range runs {
		wg.Add(1)
		go func(r *shardRun) {
			defer wg.Done()
			sem <- struct{}{}
			defer func() { <-sem }()
			cs := -1
			if rf != nil {
				cs = rf.Case
			}
			runShard(root, outRoot, scratch, p, r, *tier, seed, cs)
		}(r)
	}
	wg.Wait()

	// merge
	known := loadKnown(filepath.Join(root, "known_findings.json"))
	var evals int64
	fps := map[uint64]struct{}{}
	var fpOverflow int64
	var samples []any
	counters := map[string]int64{}
	maxes := map[string]int64{}
	requires := map[string]int64{}
	var viols []Violation
	var violTotal int64
	var inconcl []string
	partSummary := map[string]map[string]any{}
	raceTotal := 0
	raceDistinct := map[string]Violation{}
	for _, r := range runs {
		ps := partSummary[r.part.Name]
		if ps == nil {
			ps = map[string]any{"race_build": r.part.Race, "shards": r.shards, "evaluations": int64(0)}
			partSummary[r.part.Name] = ps
		}
		if r.err != "" {
			inconcl = append(inconcl, sfmt("part %s shard %d: %s", r.part.Name, r.shard, r.err))
		}
		if r.res != nil {
			evals += r.res.Evaluations
			ps["evaluations"] = ps["evaluations"].(int64) + r.res.Evaluations
			for _, h := range r.res.Fingerprints {
				fps[h] = struct{}{}
			}
			fpOverflow += r.res.FpOverflow
			for _, s := range r.res.Samples {
				if len(samples) < 6 {
					samples = append(samples, map[string]any{"part": r.part.Name, "case": s})
				}
			}
			for k, v := range r.res.Counters {
				counters[k] += v
			}
			for k, v := range r.res.Maxes {
				if cur, ok := maxes[k]; !ok || v > cur {
					maxes[k] = v
				}
			}
			for k, v := range r.res.Requires {
				if requires[k] < v {
					requires[k] = v
				}
			}
			viols = append(viols, r.res.Violations...)
			violTotal += r.res.ViolCount
			for _, m := range r.res.Inconclusive {
				inconcl = append(inconcl, sfmt("part %s: %s", r.part.Name, m))
			}
		}
		for _, lp := range r.raceLogs {
			reps, harnessOnly := parseRaceLog(lp)
			raceTotal += len(reps) + harnessOnly
			if harnessOnly > 0 {
				inconcl = append(inconcl, sfmt("part %s: %d race report(s) without an oxy frame (harness bug?) see %s", r.part.Name, harnessOnly, keepFile(outRoot, lp, p.ID)))
			}
			for _, rp := range reps {
				if _, ok := raceDistinct[rp.Key]; !ok {
					rp.Part = r.part.Name
					rp.Case = -1
					raceDistinct[rp.Key] = rp
				}
			}
		}
	}
	rkeys := []string{}
	for k := range raceDistinct {
		rkeys = append(rkeys, k)
	}
	sort.Strings(rkeys)
	for _, k := range rkeys {
		viols = append(viols, raceDistinct[k])
		violTotal++
	}
	for k, min := range requires {
		if counters[k] < min {
			inconcl = append(inconcl, sfmt("non-triviality: counter %s=%d < required %d", k, counters[k], min))
		}
	}
	if len(fps) < 2 && rf == nil {
		inconcl = append(inconcl, sfmt("distinct non-trivial cases %d < 2", len(fps)))
	}

	// classify violations
	newViol := 0
	knownHit := map[string]bool{}
	replayPaths := []string{}
	_ = os.MkdirAll(filepath.Join(outRoot, "replays"), 0o755)
	printed := map[string]bool{}
	for _, v := range viols {
		if kf := matchKnown(known, p.ID, v.Key); kf != nil {
			if !knownHit[kf.Key] {
				knownHit[kf.Key] = true
				fmt.Printf("KNOWN-FINDING: property=%s %s\n", p.ID, kf.What)
			}
			continue
		}
		newViol++
		if (printed[v.Key] && newViol > 5) || len(replayPaths) >= 10 {
			continue
		}
		printed[v.Key] = true
		rp := filepath.Join(outRoot, "replays", sfmt("%s-%s-s%d-c%d-%x.json", p.ID, v.Part, seed, v.Case, hash64(v.Key+v.Msg)&0xffff))
		b, _ := json.MarshalIndent(&replayFile{Prop: p.ID, Part: v.Part, Tier: *tier, Seed: seed, Case: v.Case, Violation: v,
			How: sfmt("cd %s && ./check %s --replay %s", root, p.ID, rp)}, "", " ")
		_ = os.WriteFile(rp, b, 0o644)
		replayPaths = append(replayPaths, rp)
		fmt.Printf("VIOLATION property=%s replay=%s\n", p.ID, rp)
		fmt.Printf("  key=%s part=%s case=%d: %s\n", v.Key, v.Part, v.Case, v.Msg)
	}

	// evidence
	if samples == nil {
		samples = []any{}
	}
	if rf == nil {
		cov := map[string]any{
			"evaluations":         evals,
			"distinct_nontrivial": len(fps),
			"rule":                p.Rule,
			"samples":             samples,
			"counters":            counters,
			"maxima":              maxes,
			"parts":               partSummary,
			"race_reports_total":  raceTotal,
			"race_reports_distinct": len(raceDistinct),
			"violations_total":    violTotal,
			"violations_known":    len(knownHit),
			"inconclusive":        inconcl,
		}
		if fpOverflow > 0 {
			cov["fingerprint_overflow_not_counted"] = fpOverflow
		}
		ev := map[string]any{
			"property_id": p.ID,
			"tier":        *tier,
			"seed":        int64(seed),
			"level":       p.Level,
			"coverage":    cov,
			"assumptions": p.Assumptions,
			"wall_s":      time.Since(start).Seconds(),
			"violations":  newViol,
		}
		b, _ := json.MarshalIndent(ev, "", " ")
		_ = os.MkdirAll(filepath.Join(outRoot, "evidence"), 0o755)
		tmp := filepath.Join(outRoot, "evidence", p.ID+".json.tmp")
		_ = os.WriteFile(tmp, b, 0o644)
		_ = os.Rename(tmp, filepath.Join(outRoot, "evidence", p.ID+".json"))
	}

	// every open finding listed for this property is announced on every run, reproduced or not
	for i := range known.Findings {
		f := &known.Findings[i]
		if f.Status == "open" && f.Property == p.ID && !knownHit[f.Key] {
			fmt.Printf("KNOWN-FINDING: property=%s %s (listed; not reproduced in this run)\n", p.ID, f.What)
		}
	}
	wall := time.Since(start).Seconds()
	if newViol > 0 {
		fmt.Printf("RESULT property=%s tier=%s seed=%d verdict=VIOLATED new=%d evaluations=%d nontrivial=%d wall=%.1fs\n", p.ID, *tier, seed, newViol, evals, len(fps), wall)
		return 1
	}
	if len(inconcl) > 0 {
		for _, m := range inconcl {
			fmt.Printf("INCONCLUSIVE property=%s: %s\n", p.ID, m)
		}
		fmt.Printf("RESULT property=%s tier=%s seed=%d verdict=INCONCLUSIVE evaluations=%d nontrivial=%d wall=%.1fs\n", p.ID, *tier, seed, evals, len(fps), wall)
		return 2
	}
	fmt.Printf("RESULT property=%s tier=%s seed=%d verdict=HELD evaluations=%d nontrivial=%d known=%d wall=%.1fs\n", p.ID, *tier, seed, evals, len(fps), len(knownHit), wall)
	return 0
}

func keepFile(root, path, prop string) string {
	dst := filepath.Join(root, "replays", prop+"-"+filepath.Base(path))
	_ = os.MkdirAll(filepath.Dir(dst), 0o755)
	b, err := os.ReadFile(path)
	if err == nil {
		if len(b) > 1<<20 {
			b = b[len(b)-(1<<20):]
		}
		_ = os.WriteFile(dst, b, 0o644)
	}
	return dst
}

func loadKnown(path string) *knownFile {
	kf := &knownFile{}
	b, err := os.ReadFile(path)
	if err != nil {
		return kf
	}
	_ = json.Unmarshal(b, kf)
	return kf
}

func matchKnown(k *knownFile, prop, key string) *knownFinding {
	for i := range k.Findings {
		f := &k.Findings[i]
		if f.Status == "open" && f.Property == prop && f.Key == key {
			return f
		}
	}
	return nil
}

func runShard(root, outRoot, scratch string, p *Property, r *shardRun, tier string, seed uint64, cs int) {
	bin := filepath.Join(envOr("VERIF_BIN", filepath.Join(root, "bin")), "vcheck")
	if r.part.Race {
		bin += ".race"
	}
	tag := sfmt("%s-%d", r.part.Name, r.shard)
	out := filepath.Join(scratch, tag+".result.json")
	sdir := filepath.Join(scratch, tag+".d")
	_ = os.MkdirAll(sdir, 0o755)
	r.logPath = filepath.Join(scratch, tag+".log")
	lf, _ := os.Create(r.logPath)
	defer lf.Close()
	cmd := exec.Command(bin, "child", "-prop", p.ID, "-part", r.part.Name, "-tier", tier, "-seed", strconv.FormatUint(seed, 10),
		"-shard", strconv.Itoa(r.shard), "-shards", strconv.Itoa(r.shards), "-out", out, "-scratch", sdir, "-case", strconv.Itoa(cs))
	cmd.Stdout = lf
	cmd.Stderr = lf
	cmd.Env = append(os.Environ(), "TMPDIR="+sdir)
	racePrefix := filepath.Join(scratch, "race-"+tag)
	if r.part.Race {
		cmd.Env = append(cmd.Env, "GORACE=halt_on_error=0 history_size=5 log_path="+racePrefix)
	}
	to := r.part.Timeout
	if to == 0 {
		if tier == "thorough" {
			to = 90 * time.Minute
		} else {
			to = 15 * time.Minute
		}
	}
	if err := cmd.Start(); err != nil {
		r.err = "cannot start child: " + err.Error()
		return
	}
	done := make(chan error, 1)
	go func() { done <- cmd.Wait() }()
	var werr error
	select {
	case werr = <-done:
	case <-time.After(to):
		_ = cmd.Process.Signal(syscall.SIGQUIT)
		select {
		case werr = <-done:
		case <-time.After(10 * time.Second):
			_ = cmd.Process.Kill()
			werr = <-done
		}
		r.err = sfmt("watchdog %v fired (log kept at %s)", to, keepFile(outRoot, r.logPath, p.ID))
	}
	if r.part.Race {
		m, _ := filepath.Glob(racePrefix + ".*")
		r.raceLogs = m
	}
	b, err := os.ReadFile(out)
	if err == nil {
		res := &PartResult{}
		if json.Unmarshal(b, res) == nil && res.Done {
			r.res = res
			return
		}
	}
	if r.err == "" {
		// a panic that unwinds out of oxy's own code during a workload is an observation about oxy, not about the
		// harness: report it as a violation of the property being exercised (key panic:<function>)
		if fn, msg := panicInOxy(r.logPath); fn != "" {
			r.res = &PartResult{Prop: p.ID, Part: r.part.Name, Shard: r.shard, Counters: map[string]int64{}, Maxes: map[string]int64{}, Requires: map[string]int64{}, Done: true,
				ViolCount: 1, Violations: []Violation{{Key: "panic:" + fn, Part: r.part.Name, Case: -1, Msg: "the workload made oxy panic: " + msg + " in " + fn + " (child log kept at " + keepFile(outRoot, r.logPath, p.ID) + ")"}}}
			return
		}
		r.err = sfmt("child ended without result (%v); log kept at %s", werr, keepFile(outRoot, r.logPath, p.ID))
	}
}

// panicInOxy looks for an unrecovered Go panic in a child's log and returns the innermost non-runtime frame of the
// panicking goroutine if that frame belongs to the oxy module.
func panicInOxy(logPath string) (fn, msg string) {
	b, err := os.ReadFile(logPath)
	if err != nil {
		return "", ""
	}
	lines := strings.Split(string(b), "\n")
	for i, l := range lines {
		if !strings.HasPrefix(l, "panic: ") && !strings.HasPrefix(l, "fatal error: ") {
			continue
		}
		msg = strings.TrimPrefix(strings.TrimPrefix(l, "panic: "), "fatal error: ")
		// skip to the stack of the panicking goroutine
		for j := i + 1; j < len(lines) && j < i+400; j++ {
			f := strings.TrimSpace(lines[j])
			if !strings.HasSuffix(f, ")") || strings.HasPrefix(f, "goroutine ") || strings.HasPrefix(f, "/") || strings.HasPrefix(f, "panic(") || strings.HasPrefix(f, "runtime.") || strings.HasPrefix(f, "created by") || f == "" {
				if strings.HasPrefix(f, "goroutine ") && j > i+2 && !strings.Contains(f, "[running]") {
					break
				}
				continue
			}
			name := f[:strings.LastIndex(f, "(")]
			if strings.Contains(name, "github.com/vulcand/oxy/v2/") && !strings.Contains(name, "/testutils.") {
				return strings.TrimPrefix(name, "github.com/vulcand/oxy/v2/"), msg
			}
			return "", ""
		}
	}
	return "", ""
}

// ---------------- race log parsing ----------------

var reFrame = regexp.MustCompile(`^  ([^\s].*)\(\)$`)

// parseRaceLog returns one Violation per report that has an oxy frame in one of
// the two access stacks, and the number of reports that have none.
func parseRaceLog(path string) ([]Violation, int) {
	f, err := os.Open(path)
	if err != nil {
		return nil, 0
	}
	defer f.Close()
	sc := bufio.NewScanner(f)
	sc.Buffer(make([]byte, 1<<20), 1<<22)
	var out []Violation
	harnessOnly := 0
	var block []string
	inBlock := false
	flush := func() {
		if len(block) == 0 {
			return
		}
		// split into stanzas separated by blank lines; the first two are the access stacks
		var stanzas [][]string
		cur := []string{}
		for _, l := range block {
			if strings.TrimSpace(l) == "" {
				if len(cur) > 0 {
					stanzas = append(stanzas, cur)
					cur = []string{}
				}
				continue
			}
			cur = append(cur, l)
		}
		if len(cur) > 0 {
			stanzas = append(stanzas, cur)
		}
		var tops []string
		var outers []string
		hasOxy := false
		for i := 0; i < len(stanzas) && i < 2; i++ {
			inner, outer := "", ""
			for _, l := range stanzas[i] {
				m := reFrame.FindStringSubmatch(l)
				if m == nil {
					continue
				}
				fn := m[1]
				if strings.Contains(fn, "github.com/vulcand/oxy/v2/") && !strings.Contains(fn, "/testutils.") {
					if inner == "" {
						inner = fn
					}
					outer = fn
				}
			}
			if inner != "" {
				hasOxy = true
			} else {
				inner = "(non-oxy)"
				outer = "(non-oxy)"
			}
			tops = append(tops, strings.TrimPrefix(inner, "github.com/vulcand/oxy/v2/"))
			outers = append(outers, strings.TrimPrefix(outer, "github.com/vulcand/oxy/v2/"))
		}
		if !hasOxy {
			harnessOnly++
			block = nil
			return
		}
		sort.Strings(tops)
		key := "race:" + strings.Join(tops, "|")
		txt := strings.Join(block, "\n")
		if len(txt) > 6000 {
			txt = txt[:6000]
		}
		out = append(out, Violation{Key: key, Msg: "data race reported by the Go race detector between " + strings.Join(tops, " and ") + " (entry points " + strings.Join(outers, ", ") + ")", Detail: txt})
		block = nil
	}
	for sc.Scan() {
		l := sc.Text()
		if strings.HasPrefix(l, "==================") {
			if inBlock {
				flush()
				inBlock = false
			} else {
				inBlock = true
				block = nil
			}
			continue
		}
		if inBlock {
			if len(block) == 0 && !strings.HasPrefix(l, "WARNING: DATA RACE") {
				inBlock = false
				continue
			}
			if len(block) > 0 || strings.HasPrefix(l, "WARNING: DATA RACE") {
				block = append(block, l)
			}
		}
	}
	if inBlock {
		flush()
	}
	// drop the "WARNING" header line from stanza parsing issues: handled since header has no frame match
	return out, harnessOnly
}
