package main

import (
	"sync"
	"sync/atomic"
	"encoding/base64"
	"math/rand/v2"
	"net/http"
	"net/http/httptest"
	"net/url"
	"strings"
	"time"

	"github.com/vulcand/oxy/v2/roundrobin"
	"github.com/vulcand/oxy/v2/roundrobin/stickycookie"
)

func init() {
	register(&Property{
		ID:    "C11",
		Level: "exploration",
		Rule: "generated sessions: pool of 2-5 servers whose URLs are drawn from a generator (userinfo, port, IPv6 host, query incl. ';' and '|', escaped path %2F, spaces, UTF-8, characters legal in URLs but special in cookies), codec from {raw, hash(salt), AES 16/24/32 with and without TTL, fallback chains of depth 1-2}, balancer or rebalancer; " +
			"mint by a real first request (Set-Cookie parsed with net/http), replay with the cookie after perturbations (rotation moved, re-weights, unrelated adds/removes) and require the same server; then one full rotation of requests with invalid cookies (absent, truncated, bit-flipped, re-encoded, other key/salt/codec, expired on the frozen clock, server removed) which must be served, stay inside the pool, follow the exact weighted counts and receive a fresh cookie that itself round-trips; " +
			"AES TTLs up to the largest duration; servers added to the wrapped balancer directly; a registration that fails in the rebalancer (meter factory error) must leave no routable ghost; the handler behind the balancer edits req.URL in place; " +
			"non-trivial = session with >=1 pinned replay after a perturbation and >=1 invalid-cookie request; distinct by (codec, pool URLs, script)",
		Assumptions: []string{"frozen library clock (hook) for TTL expiry", "a raw-codec cookie that parses to a current member is valid by definition; such mangled values are not used as negatives"},
		Parts: []Part{
			{Name: "sessions", Shards: 8, Fn: c11Sessions},
			{Name: "conc", Race: true, Shards: 4, Fn: c11Conc},
		},
	})
}

type c11Codec struct {
	name  string // class used in violation keys
	desc  string
	v     stickycookie.CookieValue
	ttl   time.Duration
	hasRaw bool
	other func(r *rand.Rand) stickycookie.CookieValue // same kind, different secret
}

func c11Key(r *rand.Rand, n int) []byte {
	b := make([]byte, n)
	for i := range b {
		b[i] = byte(r.IntN(256))
	}
	return b
}

func c11Base(r *rand.Rand, kind int) c11Codec {
	switch kind {
	case 0:
		return c11Codec{name: "raw", desc: "raw", v: &stickycookie.RawValue{}, hasRaw: true}
	case 1:
		salt := pick(r, []string{"", "salt", "s3cr3t|;"})
		return c11Codec{name: "hash", desc: "hash(" + salt + ")", v: &stickycookie.HashValue{Salt: salt},
			other: func(r *rand.Rand) stickycookie.CookieValue { return &stickycookie.HashValue{Salt: salt + "x"} }}
	default:
		klen := pick(r, []int{16, 24, 32})
		var ttl time.Duration
		name := "aes"
		if kind == 3 {
			ttl = time.Duration(5+r.IntN(120)) * time.Second
			if r.IntN(5) == 0 { // very long-lived sessions, up to the idiomatic "never" of the largest duration
				ttl = pick(r, []time.Duration{1000 * time.Hour, 100 * 365 * 24 * time.Hour, 250 * 365 * 24 * time.Hour, time.Duration(1<<63 - 1)})
			}
			name = "aes-ttl"
		}
		v, err := stickycookie.NewAESValue(c11Key(r, klen), ttl)
		if err != nil {
			panic(err)
		}
		return c11Codec{name: name, desc: sfmt("aes%d(ttl=%v)", klen*8, ttl), v: v, ttl: ttl,
			other: func(r *rand.Rand) stickycookie.CookieValue {
				o, _ := stickycookie.NewAESValue(c11Key(r, klen), ttl)
				return o
			}}
	}
}

func c11GenCodec(r *rand.Rand) c11Codec {
	switch r.IntN(7) {
	case 0, 1, 2, 3:
		return c11Base(r, r.IntN(4))
	}
	from, to := c11Base(r, r.IntN(4)), c11Base(r, r.IntN(4))
	depth := 1
	if r.IntN(3) == 0 { // depth 2
		third := c11Base(r, r.IntN(4))
		inner, _ := stickycookie.NewFallbackValue(third.v, from.v)
		from = c11Codec{name: "fallback", desc: "fb(" + third.desc + "->" + from.desc + ")", v: inner, ttl: from.ttl, hasRaw: third.hasRaw || from.hasRaw}
		depth = 2
	}
	fv, err := stickycookie.NewFallbackValue(from.v, to.v)
	if err != nil {
		panic(err)
	}
	_ = depth
	return c11Codec{name: "fallback:" + to.name, desc: "fb(" + from.desc + "->" + to.desc + ")", v: fv, ttl: to.ttl, hasRaw: from.hasRaw || to.hasRaw, other: to.other}
}

func c11GenURL(r *rand.Rand, idx int) *url.URL {
	u := &url.URL{Scheme: pick(r, []string{"http", "http", "https"})}
	switch r.IntN(6) {
	case 0:
		u.Host = sfmt("10.0.%d.%d:80%d", idx, r.IntN(250), idx)
	case 1:
		u.Host = sfmt("[::1]:90%d%d", idx, r.IntN(10))
	case 2:
		u.Host = sfmt("[fe80::%x]:8080", idx+1)
	case 3:
		u.Host = sfmt("srv%d.test", idx)
	default:
		u.Host = sfmt("srv%d.test:%d", idx, 8000+r.IntN(100))
	}
	switch r.IntN(6) {
	case 0:
		u.User = url.User("bob")
	case 1:
		u.User = url.UserPassword("user", "p@ss:w|rd;")
	case 2:
		u.User = url.UserPassword("u", "")
	}
	paths := []string{"", "/", "/app", "/a/b", "/sp ace", "/ü/é", "/a;b", "/a,b", "/q\"uote", "/a|b", "/semi;colon;twice", "/x=y&z", "/tr ail/"}
	u.Path = pick(r, paths)
	if r.IntN(8) == 0 {
		u.Path = "/a/b"
		u.RawPath = "/a%2Fb"
	}
	switch r.IntN(6) {
	case 0:
		u.RawQuery = "x=1"
	case 1:
		u.RawQuery = "q=a|b"
	case 2:
		u.RawQuery = "a;b=c"
	case 3:
		u.RawQuery = "x=1&y=%20z"
	}
	return u
}

func c11Feature(u *url.URL) string {
	var f []string
	if u.User != nil {
		f = append(f, "userinfo")
	}
	if u.RawQuery != "" {
		if strings.Contains(u.RawQuery, "|") {
			f = append(f, "query-pipe")
		} else {
			f = append(f, "query")
		}
	}
	if u.RawPath != "" {
		f = append(f, "rawpath")
	}
	if strings.Contains(u.Path, ";") {
		f = append(f, "path-semicolon")
	}
	if strings.Contains(u.Path, "|") {
		f = append(f, "path-pipe")
	}
	if u.User != nil && strings.Contains(u.User.String(), "%7C") {
		f = append(f, "userinfo-pipe")
	}
	if len(f) == 0 {
		return "plain"
	}
	return strings.Join(f, "+")
}

func c11Sessions(c *Ctx) {
	c.Cases("session", c.N(3000, 150000), func(i int, r *rand.Rand) {
		codec := c11GenCodec(r)
		kind := pick(r, []string{"rr", "rb"})
		freeze(baseTime.Add(time.Duration(r.Int64N(1e9))))
		defer unfreeze()
		var seen []string
		editURL := i%3 == 1
		h := http.HandlerFunc(func(w http.ResponseWriter, req *http.Request) {
			seen = append(seen, urlKey(req.URL))
			if editURL {
				// the handler behind the balancer edits the request it was handed (prefixing the path, as a rewrite step does)
				req.URL.Path = "/v1" + req.URL.Path
				req.URL.RawQuery = "edited=1"
			}
		})
		sticky := roundrobin.NewStickySession("aff").SetCookieValue(codec.v)
		t := newC02Target(kind, h, "never", r, sticky)
		model := map[string]int{}
		byKey := map[string]*url.URL{}
		var script []string
		nsrv := 2 + r.IntN(4)
		for k := 0; len(model) < nsrv && k < 20; k++ {
			u := c11GenURL(r, k)
			if _, dup := model[urlKey(u)]; dup {
				continue
			}
			w := 1 + r.IntN(3)
			var err error
			if kind == "rb" && r.IntN(4) == 0 {
				// the wrapped balancer was populated directly (e.g. before the rebalancer was put on top of it)
				err = t.rr.UpsertServer(u, roundrobin.Weight(w))
				c.Count("servers_added_to_inner_balancer_directly", 1)
			} else {
				err = t.upsert(u, roundrobin.Weight(w))
			}
			if err != nil {
				c.Violation("upsert/error", err.Error(), nil)
				return
			}
			model[urlKey(u)] = w
			byKey[urlKey(u)] = u
			if r.IntN(5) == 0 {
				// the plain and the TLS endpoint of one host are two servers (same host and path, other scheme)
				twin := *u
				twin.Scheme = map[string]string{"http": "https", "https": "http"}[u.Scheme]
				if _, dup := model[urlKey(&twin)]; !dup {
					if err := t.upsert(&twin, roundrobin.Weight(1)); err == nil {
						model[urlKey(&twin)] = 1
						byKey[urlKey(&twin)] = &twin
						c.Count("scheme_twins_in_pool", 1)
					}
				}
			}
		}
		removeAny := func(u *url.URL) {
			if err := t.remove(u); err != nil && t.rb != nil {
				_ = t.rr.RemoveServer(u) // it had been added to the wrapped balancer directly
			}
		}
		poolDesc := func() []string {
			var o []string
			for k := range model {
				o = append(o, sfmt("%s(w=%d)", byKey[k].String(), model[k]))
			}
			return o
		}
		desc := func() map[string]any {
			return map[string]any{"codec": codec.desc, "target": kind, "pool": poolDesc(), "script": script}
		}
		// do one request; returns handler key (or ""), status, fresh cookie value (or "")
		cookieLines := 0
		do := func(cookie string, has bool) (string, int, string, bool) {
			req := httptest.NewRequest("GET", "http://client.test/", nil)
			if has {
				if cookieLines++; cookieLines%3 == 0 {
					// cookies may arrive on several Cookie lines; the affinity cookie is not on the first one
					req.Header.Add("Cookie", "theme=dark; lang=en")
				}
				ck := &http.Cookie{Name: "aff", Value: cookie}
				req.Header.Add("Cookie", ck.String())
			}
			rec := httptest.NewRecorder()
			before := len(seen)
			t.serve(rec, req)
			c.Count("requests", 1)
			key := ""
			if len(seen) == before+1 {
				key = seen[len(seen)-1]
			} else if len(seen) > before+1 {
				key = "MULTI"
			}
			fresh, got := "", false
			for _, ck := range (&http.Response{Header: rec.Header()}).Cookies() {
				if ck.Name == "aff" {
					fresh, got = ck.Value, true
				}
			}
			return key, rec.Code, fresh, got
		}
		// 1. mint
		_ = cookieLines
		s0, code, v0, got := do("", false)
		script = append(script, "mint")
		if s0 == "" || code != 200 || !got {
			c.Violation("mint/no-cookie", sfmt("first request: routed=%q status=%d cookie issued=%v", s0, code, got), desc())
			return
		}
		feat := c11Feature(byKey[s0])
		pinnedAfterPerturbation := 0
		// 2. positive phase
		for step := 0; step < 3+r.IntN(6); step++ {
			switch r.IntN(6) {
			case 0:
				n := r.IntN(5)
				for k := 0; k < n; k++ {
					do("", false)
				}
				script = append(script, sfmt("rotate%d", n))
			case 1: // re-weight someone
				for k := range model {
					w := 1 + r.IntN(4)
					_ = t.upsert(byKey[k], roundrobin.Weight(w))
					model[k] = w
					script = append(script, "reweight")
					break
				}
			case 2: // add an unrelated server
				u := c11GenURL(r, 10+step)
				if _, dup := model[urlKey(u)]; !dup {
					_ = t.upsert(u, roundrobin.Weight(1))
					model[urlKey(u)] = 1
					byKey[urlKey(u)] = u
					script = append(script, "add")
				}
			case 3: // remove a server other than s0
				for k := range model {
					if k != s0 && len(model) > 2 {
						removeAny(byKey[k])
						delete(model, k)
						script = append(script, "remove-other")
						break
					}
				}
			case 5: // swap: remove a server other than s0 and add a new one back-to-back (pool size unchanged, nothing observed in between)
				for k := range model {
					if k != s0 && len(model) > 2 {
						u := c11GenURL(r, 20+step)
						if _, dup := model[urlKey(u)]; dup {
							break
						}
						removeAny(byKey[k])
						delete(model, k)
						_ = t.upsert(u, roundrobin.Weight(1))
						model[urlKey(u)] = 1
						byKey[urlKey(u)] = u
						script = append(script, "swap-other")
						break
					}
				}
			case 4:
				if codec.ttl > 0 {
					advance(time.Duration(r.Int64N(int64(min(codec.ttl/4, 2000*time.Hour)))))
					script = append(script, "advance<ttl")
				}
			}
			// keep total elapsed below ttl-1s
			got, code, _, _ := do(v0, true)
			script = append(script, "replay")
			c.Count("pinned_replays_checked", 1)
			if got != s0 {
				c.Violation("pin/"+codec.name+"/"+feat, sfmt("codec %s: cookie minted for %s (server URL %q) was routed to %q (status %d)", codec.desc, s0, byKey[s0].String(), got, code), desc())
				return
			}
			pinnedAfterPerturbation++
		}
		// 3. negative phase
		type neg struct{ kind, val string; has bool }
		var negs []neg
		mangle := func() []neg {
			var o []neg
			o = append(o, neg{"absent", "", false})
			if len(v0) > 2 {
				o = append(o, neg{"truncated", v0[:r.IntN(len(v0))], true})
				b := []byte(v0)
				p := r.IntN(len(b) - 1) // not the last character: in unpadded base64 its low bits are insignificant
				b[p] ^= byte(1 << r.IntN(6))
				o = append(o, neg{"bitflip", string(b), true})
			}
			o = append(o, neg{"random", randToken(r, 1+r.IntN(40)), true})
			o = append(o, neg{"empty", "", true})
			o = append(o, neg{"reencoded", base64.StdEncoding.EncodeToString([]byte(v0)), true})
			if codec.other != nil {
				o = append(o, neg{"other-secret", codec.other(r).Get(byKey[s0]), true})
			}
			if !codec.hasRaw {
				o = append(o, neg{"raw-url-to-opaque-codec", byKey[s0].String(), true})
			}
			return o
		}
		if codec.ttl > 0 && codec.ttl < 200*365*24*time.Hour && r.IntN(2) == 0 {
			advance(codec.ttl + 2*time.Second)
			script = append(script, "advance>ttl")
			negs = append(negs, neg{"expired", v0, true})
		}
		if r.IntN(2) == 0 && len(model) > 2 {
			removeAny(byKey[s0])
			delete(model, s0)
			script = append(script, "remove-s0")
			if r.IntN(2) == 0 { // replaced at once by a new server: the pool size does not change
				u := c11GenURL(r, 40)
				if _, dup := model[urlKey(u)]; !dup && urlKey(u) != s0 {
					_ = t.upsert(u, roundrobin.Weight(1))
					model[urlKey(u)] = 1
					byKey[urlKey(u)] = u
					script = append(script, "add-replacement")
				}
			}
			negs = append(negs, neg{"stale-removed-server", v0, true})
		}
		if kind == "rb" && r.IntN(3) == 0 {
			// a server whose registration failed (the rebalancer could not create its meter) is not a pool member
			ghost := c11GenURL(r, 60)
			if _, dup := model[urlKey(ghost)]; !dup && urlKey(ghost) != s0 {
				t.failMeter.Store(true)
				err := t.upsert(ghost, roundrobin.Weight(1))
				t.failMeter.Store(false)
				if err == nil {
					c.Violation("admin/failed-upsert-succeeded", "UpsertServer returned nil although the meter factory failed", desc())
					return
				}
				script = append(script, "failed-add")
				negs = append(negs, neg{"server-whose-registration-failed", codec.v.Get(ghost), true})
				c.Count("failed_registrations", 1)
			}
		}
		negs = append(negs, mangle()...)
		// filter negatives that are valid by definition for raw-containing codecs
		isMember := func(v string) bool {
			// what the server side will read after the client-side cookie sanitisation of net/http
			probe := httptest.NewRequest("GET", "http://client.test/", nil)
			probe.AddCookie(&http.Cookie{Name: "aff", Value: v})
			if ck, err := probe.Cookie("aff"); err == nil {
				v = ck.Value
			}
			pu, err := url.Parse(v)
			if err != nil {
				return false
			}
			_, ok := model[urlKey(pu)]
			return ok
		}
		g, sum := 0, 0
		for _, w := range model {
			g = gcdInt(g, w)
			sum += w
		}
		W := sum / g
		// one throw-away cookie-less request aligns nothing: exact counts hold for any W consecutive selections
		counts := map[string]int{}
		negDone := 0
		for k := 0; k < W; k++ {
			ng := negs[k%len(negs)]
			if k >= len(negs) {
				more := mangle()
				ng = more[r.IntN(len(more))]
			}
			if ng.has && codec.hasRaw && isMember(ng.val) {
				ng = neg{"absent", "", false}
			}
			key, code, fresh, gotc := do(ng.val, ng.has)
			script = append(script, "neg:"+ng.kind)
			c.Count("invalid_cookie_requests", 1)
			c.Count("invalid_"+ng.kind, 1)
			negDone++
			if key == "" || key == "MULTI" || code != 200 {
				c.Violation("invalid/rejected", sfmt("codec %s: request with %s cookie was not served normally (handler key %q, status %d)", codec.desc, ng.kind, key, code), desc())
				return
			}
			if _, ok := model[key]; !ok {
				c.Violation("invalid/outside-pool", sfmt("codec %s: request with %s cookie routed to %q which is not in the pool", codec.desc, ng.kind, key), desc())
				return
			}
			if !gotc {
				c.Violation("invalid/no-fresh-cookie", sfmt("codec %s: request with %s cookie was balanced to %q but received no fresh cookie", codec.desc, ng.kind, key), desc())
				return
			}
			counts[key]++
			if r.IntN(3) == 0 { // fresh cookie round-trips (a stuck request does not advance the rotation)
				k2, _, _, _ := do(fresh, true)
				c.Count("fresh_cookie_roundtrips", 1)
				if k2 != key {
					c.Violation("pin/"+codec.name+"/"+c11Feature(byKey[key]), sfmt("codec %s: fresh cookie issued for %s (server URL %q) after a %s cookie was routed to %q", codec.desc, key, byKey[key].String(), ng.kind, k2), desc())
					return
				}
			}
		}
		for k, w := range model {
			if counts[k] != w/g {
				c.Violation("invalid/not-balanced", sfmt("codec %s: %d requests with invalid cookies were distributed %v, exact weighted counts are %v/%d", codec.desc, W, counts, model, g), desc())
				return
			}
		}
		c.Eval()
		if pinnedAfterPerturbation > 0 && negDone > 0 {
			c.Nontrivial(sfmt("%s/%s/%v/%x", codec.desc, kind, poolDesc(), hash64(strings.Join(script, ","))))
			c.Count("sessions_nontrivial", 1)
			c.Count("codec_"+strings.SplitN(codec.name, ":", 2)[0], 1)
		}
		if i < 3 {
			c.Sample(map[string]any{"codec": codec.desc, "target": kind, "pool": poolDesc(), "minted_for": s0, "script": script})
		}
	})
	c.Require("sessions_nontrivial", 2)
}

// c11Conc: many clients start sessions at once; every fresh cookie must name the server that served that very response.
func c11Conc(c *Ctx) {
	c.Cases("conc", c.N(80, 2500), func(i int, r *rand.Rand) {
		codec := c11GenCodec(r)
		kind := pick(r, []string{"rr", "rb"})
		h := http.HandlerFunc(func(w http.ResponseWriter, req *http.Request) { w.Header().Set("X-Routed", urlKey(req.URL)) })
		sticky := roundrobin.NewStickySession("aff").SetCookieValue(codec.v)
		t := newC02Target(kind, h, "never", r, sticky)
		// two extra servers at the front of the list are removed and re-added all the time by an administration
		// goroutine (weight 0: they never receive traffic); the servers the sessions stick to stay members throughout
		extras := []*url.URL{mustURL("http://churn-a.test/"), mustURL("http://churn-b.test/")}
		for _, e := range extras {
			_ = t.upsert(e, roundrobin.Weight(1))
			_ = t.upsert(e, roundrobin.Weight(0))
		}
		n := 3 + r.IntN(4)
		var real []*url.URL
		for k := 0; k < n; k++ {
			u := c11GenURL(r, k)
			if err := t.upsert(u, roundrobin.Weight(1+r.IntN(2))); err != nil {
				return
			}
			real = append(real, u)
		}
		// one of the real servers is removed for good while the sessions and the churn are running
		victim := real[r.IntN(len(real))]
		victimKey := urlKey(victim)
		var adminStop atomic.Bool
		var adminWG sync.WaitGroup
		adminWG.Add(1)
		go func() {
			defer adminWG.Done()
			for k := 0; !adminStop.Load(); k++ {
				e := extras[k%2]
				_ = t.remove(e)
				_ = t.upsert(e, roundrobin.Weight(1))
				_ = t.upsert(e, roundrobin.Weight(0))
				time.Sleep(50 * time.Microsecond)
			}
		}()
		const G = 8
		per := 40 + r.IntN(c.N(100, 300))
		var wg sync.WaitGroup
		var bad atomic.Int64
		var firstBad atomic.Value
		var sessions atomic.Int64
		start := make(chan struct{})
		for g := 0; g < G; g++ {
			wg.Add(1)
			go func() {
				defer wg.Done()
				<-start
				for k := 0; k < per; k++ {
					rec := httptest.NewRecorder()
					t.serve(rec, httptest.NewRequest("GET", "http://client.test/", nil))
					first := rec.Header().Get("X-Routed")
					var cookie *http.Cookie
					for _, ck := range (&http.Response{Header: rec.Header()}).Cookies() {
						if ck.Name == "aff" {
							cookie = ck
						}
					}
					if strings.Contains(first, "|churn-") || first == victimKey {
						continue // served by a server that is being removed (and re-added): not guaranteed to stay a member
					}
					if cookie == nil || first == "" {
						bad.Add(1)
						firstBad.CompareAndSwap(nil, sfmt("cookie-less request: routed=%q cookie=%v", first, cookie != nil))
						continue
					}
					req := httptest.NewRequest("GET", "http://client.test/", nil)
					req.AddCookie(&http.Cookie{Name: "aff", Value: cookie.Value})
					rec2 := httptest.NewRecorder()
					t.serve(rec2, req)
					sessions.Add(1)
					if got := rec2.Header().Get("X-Routed"); got != first {
						bad.Add(1)
						firstBad.CompareAndSwap(nil, sfmt("the response served by %q carried a cookie that routes to %q", first, got))
					}
				}
			}()
		}
		close(start)
		time.Sleep(time.Duration(100+r.IntN(400)) * time.Microsecond)
		removeErr := t.remove(victim)
		wg.Wait()
		adminStop.Store(true)
		adminWG.Wait()
		c.Eval()
		c.Count("conc_sessions", sessions.Load())
		// the victim was removed (the call returned nil) while requests and other administration calls were running: it is
		// no longer a member, a cookie naming it is re-balanced and answered with a fresh cookie
		if removeErr != nil {
			c.Violation("conc/remove-failed", sfmt("%s: RemoveServer of a member failed under concurrency: %v", kind, removeErr), nil)
			return
		}
		for _, k := range keysOf(t.servers()) {
			if k == victimKey {
				c.Violation("conc/removed-server-still-member", sfmt("codec %s, %s: a server removed (RemoveServer returned nil) while requests and other pool changes were running is still listed as a member", codec.desc, kind), nil)
				return
			}
		}
		for q := 0; q < 3; q++ {
			req := httptest.NewRequest("GET", "http://client.test/", nil)
			req.AddCookie(&http.Cookie{Name: "aff", Value: codec.v.Get(victim)})
			rec := httptest.NewRecorder()
			t.serve(rec, req)
			if rec.Header().Get("X-Routed") == victimKey {
				c.Violation("conc/removed-server-still-routed", sfmt("codec %s, %s: a request carrying the cookie of a server that was removed during concurrent traffic is still routed to it", codec.desc, kind), nil)
				return
			}
		}
		c.Count("conc_removed_victims_checked", 1)
		if bad.Load() > 0 {
			c.Violation("conc/fresh-cookie-wrong-server", sfmt("codec %s, %s: %d of %d concurrent sessions got a fresh cookie that does not pin them to the server that answered (%v)", codec.desc, kind, bad.Load(), G*per, firstBad.Load()), nil)
			return
		}
		c.Nontrivial(sfmt("conc/%s/%s/%d/%d", codec.desc, kind, n, per))
		c.Count("conc_nontrivial", 1)
	})
	c.Require("conc_nontrivial", 2)
}
