package main

// Shared engine of C05 / C12 / C18: a reference model of the documented circuit breaker driven in
// lock-step with the real one by an online-generated script of arrive / complete / advance steps on
// the frozen clock, with controlled handlers so that requests overlap transitions in scripted orders.

import (
	"fmt"
	"math"
	"math/rand/v2"
	"net/http"
	"net/http/httptest"
	"regexp"
	"sort"
	"strings"
	"sync"
	"sync/atomic"
	"time"

	"github.com/vulcand/oxy/v2/cbreaker"
)

// ---------- condition ASTs ----------

type condNode struct {
	Kind string // and | or | cmp
	L, R *condNode
	// cmp
	Fn   string // neterr | coderatio | latency
	Args [4]int
	Q    float64
	Op   string // < <= > >= == !=
	FLit float64
	ILit int
}

func (n *condNode) String() string {
	switch n.Kind {
	case "and":
		return "(" + n.L.String() + " && " + n.R.String() + ")"
	case "or":
		return "(" + n.L.String() + " || " + n.R.String() + ")"
	}
	switch n.Fn {
	case "neterr":
		return fmt.Sprintf("NetworkErrorRatio() %s %s", n.Op, fl(n.FLit))
	case "coderatio":
		return fmt.Sprintf("ResponseCodeRatio(%d, %d, %d, %d) %s %s", n.Args[0], n.Args[1], n.Args[2], n.Args[3], n.Op, fl(n.FLit))
	}
	return fmt.Sprintf("LatencyAtQuantileMS(%s) %s %d", fl(n.Q), n.Op, n.ILit)
}

func fl(f float64) string {
	s := fmt.Sprintf("%g", f)
	if !strings.ContainsAny(s, ".e") {
		s += ".0"
	}
	return s
}

func genCond(r *rand.Rand, depth int) *condNode {
	if depth > 0 && r.IntN(3) == 0 {
		k := "and"
		if r.IntN(2) == 0 {
			k = "or"
		}
		return &condNode{Kind: k, L: genCond(r, depth-1), R: genCond(r, depth-1)}
	}
	ops := []string{"<", "<=", ">", ">=", "==", "!="}
	n := &condNode{Kind: "cmp", Op: pick(r, ops)}
	// bias towards conditions that trip on failure
	if r.IntN(3) > 0 {
		n.Op = pick(r, []string{">", ">="})
	}
	switch r.IntN(4) {
	case 0:
		n.Fn = "neterr"
		n.FLit = pick(r, []float64{0, 0.1, 0.25, 0.3, 0.5, 0.75, 1})
	case 1, 2:
		n.Fn = "coderatio"
		ranges := [][2]int{{500, 600}, {200, 300}, {0, 600}, {400, 500}, {502, 505}, {500, 501}, {200, 600}}
		a, b := pick(r, ranges), pick(r, ranges)
		n.Args = [4]int{a[0], a[1], b[0], b[1]}
		n.FLit = pick(r, []float64{0, 0.2, 0.25, 0.5, 0.6, 1, 2})
	default:
		n.Fn = "latency"
		n.Q = pick(r, []float64{50, 90, 95, 99, 100, 10, 0.5})
		n.ILit = pick(r, []int{0, 1, 10, 50, 100, 250, 1000})
	}
	return n
}

type cbRec struct {
	t    time.Time
	code int
	lat  time.Duration
}

// tri-valued truth: 1 true, 0 false, -1 ambiguous
func cmpF(v float64, op string, lit float64) int {
	var b bool
	switch op {
	case "<":
		b = v < lit
	case "<=":
		b = v < lit || v == lit
	case ">":
		b = v > lit
	case ">=":
		b = v > lit || v == lit
	case "==":
		b = v == lit
	default:
		b = v != lit
	}
	if b {
		return 1
	}
	return 0
}

func cmpI(v int64, op string, lit int64) bool {
	switch op {
	case "<":
		return v < lit
	case "<=":
		return v <= lit
	case ">":
		return v > lit
	case ">=":
		return v >= lit
	case "==":
		return v == lit
	}
	return v != lit
}

type condStats struct {
	ambigWindow, ambigLatency, ambigRank0 int
}

// evalCond evaluates the condition over the harness's own log of responses recorded since the last trip.
func evalCond(n *condNode, log []cbRec, now time.Time, st *condStats) int {
	switch n.Kind {
	case "and":
		a, b := evalCond(n.L, log, now, st), evalCond(n.R, log, now, st)
		if a == 0 || b == 0 {
			return 0
		}
		if a == 1 && b == 1 {
			return 1
		}
		return -1
	case "or":
		a, b := evalCond(n.L, log, now, st), evalCond(n.R, log, now, st)
		if a == 1 || b == 1 {
			return 1
		}
		if a == 0 && b == 0 {
			return 0
		}
		return -1
	}
	if n.Fn == "latency" {
		// latency quantiles come from the rolling latency histogram (6 sub-histograms of 10s, rolled by the first record
		// that arrives >= 10s after the previous roll): a response recorded less than 50s ago is certainly still in it;
		// for older ones it depends on when later responses were recorded, which the statement does not pin down:
		// decided only when everything recorded since the reset is younger than that
		var vals []int64
		for _, e := range log {
			if now.Sub(e.t) >= 50*time.Second {
				st.ambigWindow++
				return -1
			}
			vals = append(vals, int64(e.lat/time.Microsecond))
		}
		nn := len(vals)
		k := int(math.Floor(n.Q/100*float64(nn) + 0.5))
		if k < 1 {
			st.ambigRank0++
			return -1
		}
		sort.Slice(vals, func(i, j int) bool { return vals[i] < vals[j] })
		lo, hi := int64(math.MaxInt64), int64(-1)
		for _, kk := range []int{k - 1, k, k + 1} {
			if kk < 1 {
				kk = 1
			}
			if kk > nn {
				kk = nn
			}
			v := vals[kk-1]
			l := int64(float64(v)*0.98) / 1000
			h := int64(float64(v)*1.02+1) / 1000
			if l < lo {
				lo = l
			}
			if h > hi {
				hi = h
			}
		}
		t0 := cmpI(lo, n.Op, int64(n.ILit))
		for v := lo; v <= hi; v++ {
			if cmpI(v, n.Op, int64(n.ILit)) != t0 {
				st.ambigLatency++
				return -1
			}
			if hi-lo > 100000 {
				break
			}
		}
		if hi-lo > 100000 {
			// wide interval: check the two ends and the literal's neighbourhood
			for _, v := range []int64{hi, int64(n.ILit) - 1, int64(n.ILit), int64(n.ILit) + 1} {
				if v >= lo && v <= hi && cmpI(v, n.Op, int64(n.ILit)) != t0 {
					st.ambigLatency++
					return -1
				}
			}
		}
		if t0 {
			return 1
		}
		return 0
	}
	// ratio leaves: counts over the rolling window; decided only when the "age <= 9s" and "age < 10s" sets agree
	var a, b, tot, ne float64
	for _, e := range log {
		age := now.Sub(e.t)
		if age > 9*time.Second && age < 10*time.Second {
			st.ambigWindow++
			return -1
		}
		if age >= 10*time.Second {
			continue
		}
		tot++
		if e.code == 502 || e.code == 504 {
			ne++
		}
		if e.code >= n.Args[0] && e.code < n.Args[1] {
			a++
		}
		if e.code >= n.Args[2] && e.code < n.Args[3] {
			b++
		}
	}
	var v float64
	if n.Fn == "neterr" {
		if tot != 0 {
			v = ne / tot
		}
	} else if b != 0 {
		v = a / b
	}
	return cmpF(v, n.Op, n.FLit)
}

// ---------- controlled breaker driver ----------

// countEffect counts its executions; with block set, every execution then stays busy until the channel is closed (a
// webhook whose receiver does not answer).
type countEffect struct {
	n     atomic.Int64
	block <-chan struct{}
}

func (e *countEffect) Exec() error {
	e.n.Add(1)
	if e.block != nil {
		<-e.block
	}
	return nil
}

// cbHangTimeout: how long the driver waits for a request to reach the handler / the fallback / to return before it
// calls it a hang (typical: microseconds). After the first hang of a run the remaining waits are cut short.
var cbHangTimeout = 20 * time.Second

type cbDriver struct {
	cb        *cbreaker.CircuitBreaker
	entered   chan int
	fellback  chan int
	done      chan int
	mu        sync.Mutex
	release   map[int]chan int // status to answer (0 = write nothing)
	onTripped *countEffect
	onStandby *countEffect
}

type cbConfig struct {
	Fallback, Recovery, CheckPeriod time.Duration
	Cond                            *condNode
	FormatLogs                      bool
	SlowEffects                     bool // side effects that do not finish before the next transition
}

func reqID(req *http.Request) int {
	id := 0
	for _, ch := range req.Header.Get("X-Id") {
		id = id*10 + int(ch-'0')
	}
	return id
}

func newCBDriver(cfg cbConfig) (*cbDriver, error) {
	d := &cbDriver{entered: make(chan int, 256), fellback: make(chan int, 256), done: make(chan int, 256), release: map[int]chan int{}, onTripped: &countEffect{}, onStandby: &countEffect{}}
	h := http.HandlerFunc(func(w http.ResponseWriter, req *http.Request) {
		id := reqID(req)
		d.mu.Lock()
		rel := d.release[id]
		d.mu.Unlock()
		d.entered <- id
		st := <-rel
		if st != 0 {
			if id%5 == 3 {
				// an informational response first, as a reverse proxy relaying a backend's 103 Early Hints does; the
				// response that counts is the final one
				w.Header().Set("Link", "</style.css>; rel=preload")
				w.WriteHeader(http.StatusEarlyHints)
				w.Header().Del("Link")
			}
			w.WriteHeader(st)
		}
	})
	fb := http.HandlerFunc(func(w http.ResponseWriter, req *http.Request) {
		d.fellback <- reqID(req)
		w.WriteHeader(http.StatusServiceUnavailable)
	})
	opts := []cbreaker.Option{cbreaker.FallbackDuration(cfg.Fallback), cbreaker.RecoveryDuration(cfg.Recovery), cbreaker.CheckPeriod(cfg.CheckPeriod),
		cbreaker.Fallback(fb), cbreaker.OnTripped(d.onTripped), cbreaker.OnStandby(d.onStandby)}
	if cfg.FormatLogs {
		// a Logger that really formats its arguments: every log call inside the breaker then runs String()
		opts = append(opts, cbreaker.Logger(fmtLogger{}), cbreaker.Verbose(true))
	}
	cb, err := cbreaker.New(h, cfg.Cond.String(), opts...)
	if err != nil {
		return nil, err
	}
	d.cb = cb
	// another breaker of the same process, configured afterwards with quite different durations: breakers are independent
	_, _ = cbreaker.New(http.HandlerFunc(func(http.ResponseWriter, *http.Request) {}), "NetworkErrorRatio() > 0.5",
		cbreaker.FallbackDuration(17*time.Millisecond), cbreaker.RecoveryDuration(3*time.Nanosecond), cbreaker.CheckPeriod(time.Hour))
	return d, nil
}

// arrive starts request id; returns "pass" (entered handler), "fallback", or "hang".
func (d *cbDriver) arrive(id int) string {
	rel := make(chan int, 1)
	d.mu.Lock()
	d.release[id] = rel
	d.mu.Unlock()
	go func() {
		req := httptest.NewRequest("GET", "http://x.test/", nil)
		req.Header.Set("X-Id", fmt.Sprint(id))
		d.cb.ServeHTTP(httptest.NewRecorder(), req)
		d.done <- id
	}()
	select {
	case <-d.entered:
		return "pass"
	case <-d.fellback:
		select {
		case <-d.done:
		case <-time.After(cbHangTimeout):
			return "hang"
		}
		return "fallback"
	case <-time.After(cbHangTimeout):
		return "hang"
	}
}

func (d *cbDriver) complete(id, status int) bool {
	d.mu.Lock()
	rel := d.release[id]
	d.mu.Unlock()
	rel <- status
	select {
	case <-d.done:
		return true
	case <-time.After(cbHangTimeout):
		return false
	}
}

var reCBState = regexp.MustCompile(`^CircuitBreaker\(state=(\w+)(?:, until=(.*))?\)$`)

func (d *cbDriver) observe() (state string, until time.Time, err error) {
	s := d.cb.String()
	m := reCBState.FindStringSubmatch(s)
	if m == nil {
		return "", time.Time{}, fmt.Errorf("unparseable state %q", s)
	}
	state = m[1]
	if m[2] != "" {
		until, err = time.Parse("2006-01-02 15:04:05.999999999 -0700 MST", m[2])
	}
	return
}

// ---------- the reference model ----------

type cbModel struct {
	cfg       cbConfig
	state     string // standby | tripped | recovering
	until     time.Time
	lastCheck time.Time
	rcStart   time.Time
	a, d      int64
	log       []cbRec
}

// rampDecision: 1 admit, 0 refuse, -1 ambiguous (float equality band)
func (m *cbModel) rampDecision(t time.Time) int {
	e := t.Sub(m.rcStart)
	D := m.cfg.Recovery
	// admit iff (a+1)/(a+d+1) < 0.5*e/D  <=>  2*D*(a+1) < e*(a+d+1)
	lhs := new(bigInt).mul(2*int64(D), m.a+1)
	rhs := new(bigInt).mul(int64(e), m.a+m.d+1)
	c := lhs.cmp(rhs)
	// ambiguity band: the library compares floats
	lf := float64(m.a+1) / float64(m.a+m.d+1)
	rf := 0.5 / float64(D) * float64(e)
	if lf == rf || math.Abs(lf-rf) <= 1e-9*math.Max(math.Abs(lf), math.Abs(rf)) {
		return -1
	}
	if c < 0 {
		return 1
	}
	return 0
}

// bigInt: tiny 128-bit helper (products of two int64) for exact comparison.
type bigInt struct {
	hi, lo uint64
	neg    bool
}

func (b *bigInt) mul(x, y int64) *bigInt {
	neg := (x < 0) != (y < 0)
	ux, uy := uint64(x), uint64(y)
	if x < 0 {
		ux = uint64(-x)
	}
	if y < 0 {
		uy = uint64(-y)
	}
	hi, lo := mul64(ux, uy)
	b.hi, b.lo, b.neg = hi, lo, neg && (hi != 0 || lo != 0)
	return b
}

func mul64(x, y uint64) (hi, lo uint64) {
	const mask32 = 1<<32 - 1
	x0, x1 := x&mask32, x>>32
	y0, y1 := y&mask32, y>>32
	w0 := x0 * y0
	t := x1*y0 + w0>>32
	w1 := t & mask32
	w2 := t >> 32
	w1 += x0 * y1
	hi = x1*y1 + w2 + w1>>32
	lo = x * y
	return
}

func (b *bigInt) cmp(o *bigInt) int {
	if b.neg != o.neg {
		if b.neg {
			return -1
		}
		return 1
	}
	r := 0
	if b.hi != o.hi {
		if b.hi < o.hi {
			r = -1
		} else {
			r = 1
		}
	} else if b.lo != o.lo {
		if b.lo < o.lo {
			r = -1
		} else {
			r = 1
		}
	}
	if b.neg {
		return -r
	}
	return r
}

// ---------- one lock-step run ----------

type cbMismatch struct {
	Cat string // shield | standby | ramp | recovery-start | recovery-end | trip | until | transition | effects | hang
	Msg string
}

type cbRunStats struct {
	steps, arrivals, completions, trips, standbys, rampDecisions, rampAmbiguous, evals, evalAmbiguous, sameInstantChecks int
	passedWhileRecovering, refusedWhileRecovering                                                                       int
	maxInFlight, inFlightAcrossTrip                                                                                     int
	cs                                                                                                                  condStats
}

type cbStepChooser func(r *rand.Rand, m *cbModel, inflight []int, now time.Time, step int) (op string, arg int, d time.Duration)

// cbRun executes up to nsteps. The FIRST mismatch between model and breaker ends the run and is returned
// (the caller decides whether its category belongs to the property being checked); ambiguous steps
// resynchronise the model from the observed state and continue.
// belongs tells which mismatches refute the property being decided: one of those ends the run; a mismatch that is another
// property's concern is remembered (returned if nothing else is found), the model is re-synchronised with the observed
// state and the run goes on, so that a deviation of the other kind does not hide a later one of this kind.
func cbRun(r *rand.Rand, cfg cbConfig, nsteps int, choose cbStepChooser, belongs func(*cbMismatch) bool) (cbRunStats, []string, *cbMismatch, error) {
	var st cbRunStats
	start := baseTime.Add(time.Duration(r.Int64N(int64(time.Hour)))).Add(time.Duration(r.Int64N(1e9)))
	freeze(start)
	defer unfreeze()
	d, err := newCBDriver(cfg)
	if err != nil {
		return st, nil, nil, err
	}
	if cfg.SlowEffects {
		busy := make(chan struct{})
		defer close(busy)
		d.onTripped.block, d.onStandby.block = busy, busy
	}
	m := &cbModel{cfg: cfg, state: "standby"}
	var script []string
	arrivedAt := map[int]time.Time{}
	var inflight []int
	nextID := 0
	statuses := []int{0, 200, 200, 201, 404, 500, 500, 502, 503, 504}
	legalArrival := map[string]map[string]bool{
		"standby":    {"standby": true},
		// the recovery period starts at the arrival that ends the tripped state and every configuration here has a recovery
		// duration > 0, so one arrival can never take the breaker from tripped to standby
		"tripped":    {"tripped": true, "recovering": true, "standby": cfg.Recovery <= 0},
		"recovering": {"recovering": true, "standby": true},
	}
	legalCompletion := map[string]map[string]bool{
		"standby":    {"standby": true, "tripped": true},
		"tripped":    {"tripped": true},
		"recovering": {"recovering": true, "tripped": true},
	}
	prevObserved := "standby"
	var obsTrips, obsStandbys int64
	var found, foreign *cbMismatch
	needResync := false
	mism := func(cat, msg string) {
		mm := &cbMismatch{cat, msg}
		if found != nil {
			return
		}
		if cat == "hang" || belongs == nil || belongs(mm) {
			found = mm
			return
		}
		if foreign == nil {
			foreign = mm
		}
		needResync = true
	}
	resync := func() {
		os, ou, err := d.observe()
		if err != nil {
			return
		}
		if os != m.state {
			if os == "tripped" {
				m.log = nil
			}
			if os == "recovering" {
				m.rcStart = now()
				m.a, m.d = 0, 0
			}
		}
		m.state = os
		if os != "standby" {
			m.until = ou
		}
	}
	defer func() {
		for _, id := range inflight {
			d.complete(id, 200)
		}
	}()
	for s := 0; s < nsteps && found == nil; s++ {
		st.steps++
		op, arg, dur := choose(r, m, inflight, now(), s)
		switch op {
		case "advance":
			advance(dur)
			script = append(script, fmt.Sprintf("adv(%v)", dur))
			continue
		case "arrive":
			nextID++
			id := nextID
			t := now()
			want := ""
			ambiguous := false
			cat := ""
			preState := m.state
			switch m.state {
			case "standby":
				want, cat = "pass", "standby"
			case "tripped":
				if t.Before(m.until) {
					want, cat = "fallback", "shield"
				} else {
					m.state = "recovering"
					m.until = t.Add(cfg.Recovery)
					m.rcStart = t
					m.a, m.d = 0, 0
					cat = "recovery-start"
				}
			}
			if m.state == "recovering" && want == "" {
				if cat == "" {
					cat = "ramp"
				}
				if t.After(m.until) {
					m.state = "standby"
					want, cat = "pass", "recovery-end"
				} else {
					switch m.rampDecision(t) {
					case 1:
						want = "pass"
					case 0:
						want = "fallback"
					default:
						ambiguous = true
						st.rampAmbiguous++
					}
					st.rampDecisions++
				}
			}
			got := d.arrive(id)
			st.arrivals++
			script = append(script, fmt.Sprintf("arrive#%d@+%v=%s", id, t.Sub(start), got))
			if got == "hang" {
				mism("hang", fmt.Sprintf("request #%d neither reached the handler nor got the fallback within %v (deadlock?)", id, cbHangTimeout))
				cbHangTimeout = 500 * time.Millisecond
				break
			}
			if got == "pass" {
				inflight = append(inflight, id)
				arrivedAt[id] = t
				if len(inflight) > st.maxInFlight {
					st.maxInFlight = len(inflight)
				}
			}
			if m.state == "recovering" {
				if got == "pass" {
					m.a++
					st.passedWhileRecovering++
				} else {
					m.d++
					st.refusedWhileRecovering++
				}
			}
			if !ambiguous && got != want {
				mism(cat, fmt.Sprintf("arrival #%d at +%v: model state %s (until +%v; ramp allowed=%d denied=%d since +%v of %v), expected %s, breaker answered %s", id, t.Sub(start), preState, m.until.Sub(start), m.a, m.d, m.rcStart.Sub(start), cfg.Recovery, want, got))
				if found != nil {
					break
				}
				ambiguous = true // another property's mismatch: observe, re-synchronise, go on
			}
			os, ou, err := d.observe()
			if err != nil {
				mism("transition", err.Error())
				break
			}
			if !legalArrival[prevObserved][os] {
				mism("transition", fmt.Sprintf("observed state went %s -> %s on an arrival", prevObserved, os))
				break
			}
			if os == "standby" && prevObserved != "standby" {
				obsStandbys++
			}
			prevObserved = os
			switch {
			case ambiguous:
				resync()
			case os != m.state:
				mism(cat, fmt.Sprintf("after arrival #%d at +%v the breaker is %s, the model %s (model until +%v)", id, t.Sub(start), os, m.state, m.until.Sub(start)))
			case os != "standby" && !ou.Equal(m.until):
				mism("until-"+os, fmt.Sprintf("after arrival #%d: state %s until +%v, model until +%v", id, os, ou.Sub(start), m.until.Sub(start)))
			}
		case "complete":
			if len(inflight) == 0 {
				continue
			}
			k := arg % len(inflight)
			id := inflight[k]
			inflight = append(inflight[:k:k], inflight[k+1:]...)
			status := statuses[int(dur)%len(statuses)]
			t := now()
			lat := t.Sub(arrivedAt[id])
			code := status
			if code == 0 {
				code = 200
			}
			if !d.complete(id, status) {
				mism("hang", fmt.Sprintf("released request #%d did not return within %v (deadlock?)", id, cbHangTimeout))
				cbHangTimeout = 500 * time.Millisecond
				break
			}
			st.completions++
			m.log = append(m.log, cbRec{t, code, lat})
			script = append(script, fmt.Sprintf("complete#%d(%d,lat=%v)@+%v", id, code, lat, t.Sub(start)))
			preState := m.state
			nlog := len(m.log)
			due := t.After(m.lastCheck)
			sameInstant := t.Equal(m.lastCheck)
			wantTrip, ambiguous := false, false
			if due {
				m.lastCheck = t.Add(cfg.CheckPeriod)
				if m.state != "tripped" {
					st.evals++
					switch evalCond(cfg.Cond, m.log, t, &st.cs) {
					case 1:
						wantTrip = true
					case -1:
						ambiguous = true
						st.evalAmbiguous++
					}
				}
			} else if sameInstant {
				st.sameInstantChecks++
				ambiguous = true // "now == lastCheck": whether a check is due is not pinned down by the statement
			}
			os, ou, err := d.observe()
			if err != nil {
				mism("transition", err.Error())
				break
			}
			if !legalCompletion[prevObserved][os] {
				mism("transition", fmt.Sprintf("observed state went %s -> %s on a completion", prevObserved, os))
				break
			}
			obsTrip := os == "tripped" && prevObserved != "tripped"
			if obsTrip {
				obsTrips++
				st.trips++
				st.inFlightAcrossTrip += len(inflight)
			}
			prevObserved = os
			rec := "|recovering=" + fmt.Sprint(preState == "recovering")
			switch {
			case ambiguous:
				if obsTrip {
					m.state, m.until, m.log = "tripped", ou, nil
					m.lastCheck = t.Add(cfg.CheckPeriod)
				}
			case wantTrip && !obsTrip:
				mism("trip", fmt.Sprintf("completion #%d at +%v: condition %s is true over the %d responses recorded since the last trip (state %s) but the breaker stayed %s", id, t.Sub(start), cfg.Cond, nlog, preState, os)+rec)
			case !wantTrip && obsTrip:
				why := "the condition is false over the responses recorded since the last trip"
				if !due {
					why = "no evaluation was due (check period not elapsed)"
				}
				mism("trip", fmt.Sprintf("completion #%d at +%v: breaker tripped although %s; condition %s over %d responses, state before %s", id, t.Sub(start), why, cfg.Cond, nlog, preState)+rec)
			case wantTrip:
				m.state = "tripped"
				m.until = t.Add(cfg.Fallback)
				m.log = nil
				if !ou.Equal(m.until) {
					mism("until-tripped", fmt.Sprintf("tripped at +%v: until +%v, expected trip instant + fallback duration = +%v", t.Sub(start), ou.Sub(start), m.until.Sub(start)))
				}
			case os != m.state:
				mism("transition", fmt.Sprintf("after completion #%d the breaker is %s, the model %s", id, os, m.state))
			}
		}
		if found == nil && needResync {
			resync()
			needResync = false
		}
		if found == nil {
			if got := d.onTripped.n.Load(); got > obsTrips {
				mism("effects", fmt.Sprintf("on-tripped side effect ran %d times for %d observed transitions into tripped", got, obsTrips))
			}
			if got := d.onStandby.n.Load(); got > obsStandbys {
				mism("effects", fmt.Sprintf("on-standby side effect ran %d times for %d observed transitions into standby", got, obsStandbys))
			}
		}
	}
	st.standbys = int(obsStandbys)
	if found == nil {
		// "too few": side effects run in their own goroutines; bounded wait
		deadline := time.Now().Add(20 * time.Second)
		for time.Now().Before(deadline) && (d.onTripped.n.Load() < obsTrips || d.onStandby.n.Load() < obsStandbys) {
			time.Sleep(200 * time.Microsecond)
		}
		if a, b := d.onTripped.n.Load(), d.onStandby.n.Load(); a != obsTrips || b != obsStandbys {
			mism("effects", fmt.Sprintf("side effects ran tripped=%d standby=%d for observed transitions tripped=%d standby=%d", a, b, obsTrips, obsStandbys))
		}
	}
	if found == nil {
		found = foreign
	}
	return st, script, found, nil
}

// defaultChooser: phase-aware random steps.
func cbChooser(maxInflight int, arriveW, completeW, advanceW int, burst bool) cbStepChooser {
	return func(r *rand.Rand, m *cbModel, inflight []int, now time.Time, step int) (string, int, time.Duration) {
		x := r.IntN(arriveW + completeW + advanceW)
		switch {
		case x < arriveW && len(inflight) < maxInflight:
			return "arrive", 0, 0
		case x < arriveW+completeW && len(inflight) > 0:
			// status index encoded in dur
			return "complete", r.IntN(64), time.Duration(r.IntN(1000))
		}
		// advance: relative to interesting instants
		var d time.Duration
		toUntil := m.until.Sub(now)
		switch r.IntN(12) {
		case 0:
			d = time.Duration(r.IntN(3)) // 0,1,2 ns
		case 1, 2:
			if m.state != "standby" && toUntil > 0 {
				d = toUntil + time.Duration(r.IntN(3)-1) // land 1ns before / exactly on / 1ns after
			} else {
				d = time.Duration(r.Int64N(int64(time.Second)))
			}
		case 3:
			if m.state == "recovering" && toUntil > 0 {
				d = time.Duration(r.Int64N(int64(toUntil) + 1))
			} else {
				d = m.cfg.CheckPeriod + time.Duration(r.IntN(3)-1)
			}
		case 4:
			d = m.cfg.CheckPeriod
			if m.state == "tripped" && toUntil > 0 && r.IntN(2) == 0 {
				// a quiet period: the next request arrives long after the fallback period ended
				d = toUntil + time.Duration(r.Int64N(int64(3*m.cfg.Recovery)+1))
			}
		case 5:
			d = time.Duration(r.Int64N(int64(m.cfg.Recovery)/50 + 1))
		case 6:
			d = time.Duration(r.Int64N(int64(3 * time.Second)))
		case 7:
			if r.IntN(6) == 0 {
				d = 9*time.Second + time.Duration(r.Int64N(int64(3*time.Second)))
			} else {
				d = time.Duration(r.Int64N(int64(200 * time.Millisecond)))
			}
		default:
			d = time.Duration(r.Int64N(int64(400 * time.Millisecond)))
		}
		if d < 0 {
			d = 0
		}
		return "advance", 0, d
	}
}

func genCBConfig(r *rand.Rand, depth int) cbConfig {
	return cbConfig{
		Fallback:    pick(r, []time.Duration{500 * time.Millisecond, time.Second, 2 * time.Second, 5 * time.Second}),
		Recovery:    pick(r, []time.Duration{time.Second, 2 * time.Second, 4 * time.Second, time.Second, 2 * time.Second, 4 * time.Second, 0, 300 * time.Millisecond, 15 * time.Second, 12 * time.Second}), // 15s: longer than the 10s counter window; 0: no ramp at all, standby right after the arrival that ends the tripped state
		CheckPeriod: pick(r, []time.Duration{0, 100 * time.Millisecond, time.Second}),
		Cond:        genCond(r, depth),
		FormatLogs:  r.IntN(2) == 0,
		SlowEffects: r.IntN(4) == 0,
	}
}
