package main

import (
	"sync/atomic"
	"net/url"
	"fmt"
	"math/rand/v2"
	"net"
	"net/http"
	"strings"
	"sync"

	"github.com/vulcand/oxy/v2/utils"
)

func init() {
	register(&Property{
		ID:    "C19",
		Level: "exploration",
		Rule: "generated RemoteAddr strings (IPv4, full/compressed/v4-mapped IPv6, zoned IPv6, every port class; malformed forms), Host values, header names/values and variable names; " +
			"every token returned without an error must count the request as 1; unsupported variables include ones that merely contain a supported name; " +
			"part conc (race build): one extractor object of each kind used by 8 goroutines for 8 different peers at once, every result must be the caller's own; " +
			"oracle = net.SplitHostPort for well-formed addresses; a case is non-trivial when the address is well-formed or the variable is refused; distinct by (class,input)",
		Assumptions: []string{"net.SplitHostPort is the reference for what 'the peer's IP address' of a host:port string is", "malformed RemoteAddr: only absence of panic is demanded"},
		Parts: []Part{
			{Name: "gen", Fn: c19Gen},
			{Name: "sockets", Fn: c19Sockets},
			{Name: "conc", Race: true, Fn: c19Conc},
		},
	})
}

func genIPv4(r *rand.Rand) string {
	switch r.IntN(6) {
	case 0:
		return "127.0.0.1"
	case 1:
		return "0.0.0.0"
	case 2:
		return "255.255.255.255"
	}
	return fmt.Sprintf("%d.%d.%d.%d", r.IntN(256), r.IntN(256), r.IntN(256), r.IntN(256))
}

func genIPv6(r *rand.Rand) string {
	switch r.IntN(8) {
	case 0:
		return "::1"
	case 1:
		return "::"
	case 2:
		return "::ffff:" + genIPv4(r)
	case 3:
		return "fe80::" + fmt.Sprintf("%x:%x", r.IntN(65536), r.IntN(65536))
	case 4:
		// full form
		p := make([]string, 8)
		for i := range p {
			p[i] = fmt.Sprintf("%x", r.IntN(65536))
		}
		return strings.Join(p, ":")
	}
	ip := make(net.IP, 16)
	for i := range ip {
		if r.IntN(3) > 0 {
			ip[i] = byte(r.IntN(256))
		}
	}
	ip[0] = 0x20
	return ip.String()
}

func genZone(r *rand.Rand) string {
	zs := []string{"eth0", "lo", "1", "en0", "vEthernet (vmxnet3 Ethernet Adapter - Virtual Switch)", "wlan0.1", "br-1a2b"}
	return pick(r, zs)
}

func genPort(r *rand.Rand) string {
	switch r.IntN(5) {
	case 0:
		return "0"
	case 1:
		return "65535"
	case 2:
		return "80"
	}
	return fmt.Sprint(r.IntN(65536))
}

type c19Addr struct {
	class string
	host  string // expected token (well-formed only)
	addr  string
	well  bool
}

func genAddr(r *rand.Rand) c19Addr {
	switch r.IntN(10) {
	case 0, 1, 2:
		h := genIPv4(r)
		return c19Addr{"ipv4", h, net.JoinHostPort(h, genPort(r)), true}
	case 3, 4, 5:
		h := genIPv6(r)
		return c19Addr{"ipv6", h, net.JoinHostPort(h, genPort(r)), true}
	case 6, 7:
		h := genIPv6(r) + "%" + genZone(r)
		return c19Addr{"ipv6zone", h, net.JoinHostPort(h, genPort(r)), true}
	}
	// malformed
	bad := []string{"", ":", ":80", "1.2.3.4", "::1", "[::1]", "[::1", "::1]:80", "[::1]:", "[]:80", "[:80", "]:80", "@", "unix", "\x00:1", "[fe80::1%]:80", "%:1"}
	if r.IntN(3) == 0 {
		n := r.IntN(12)
		b := make([]byte, n)
		for i := range b {
			b[i] = byte(r.IntN(256))
		}
		return c19Addr{"malformed", "", string(b), false}
	}
	return c19Addr{"malformed", "", pick(r, bad), false}
}

func safeExtract(ex utils.SourceExtractor, req *http.Request) (tok string, amt int64, err error, pan any) {
	defer func() {
		if p := recover(); p != nil {
			pan = p
		}
	}()
	tok, amt, err = ex.Extract(req)
	return
}

func c19Gen(c *Ctx) {
	ipx, err := utils.NewExtractor("client.ip")
	if err != nil {
		c.Violation("clientip/constructor", "NewExtractor(client.ip) failed: "+err.Error(), nil)
		return
	}
	hostx, err := utils.NewExtractor("request.host")
	if err != nil {
		c.Violation("host/constructor", "NewExtractor(request.host) failed: "+err.Error(), nil)
		return
	}
	n := c.N(6000, 400000)
	c.Cases("addr", n, func(i int, r *rand.Rand) {
		a := genAddr(r)
		req := &http.Request{RemoteAddr: a.addr, Header: http.Header{}}
		tok, amt, err, pan := safeExtract(ipx, req)
		c.Eval()
		if pan != nil {
			c.Violation("clientip/panic", sfmt("client.ip panicked on RemoteAddr %q: %v", a.addr, pan), map[string]any{"remote_addr": a.addr})
			return
		}
		if !a.well {
			c.Count("malformed_no_panic", 1)
			// "each counts a request as one unit": whatever token comes back without an error, the amount is 1
			if err == nil && amt != 1 {
				c.Violation("clientip/amount", sfmt("client.ip on RemoteAddr %q gave token %q without an error but counts the request as %d units, want 1", a.addr, tok, amt), map[string]any{"remote_addr": a.addr})
			}
			return
		}
		c.Nontrivial("addr/" + a.class + "/" + a.addr)
		c.Count("wellformed_"+a.class, 1)
		c.Sample(map[string]any{"remote_addr": a.addr, "token": tok, "amount": amt})
		if err != nil || tok != a.host || amt != 1 {
			c.Violation("clientip/"+a.class, sfmt("client.ip on RemoteAddr %q gave token %q amount %d err %v; want token %q amount 1", a.addr, tok, amt, err, a.host),
				map[string]any{"remote_addr": a.addr, "token": tok, "want": a.host})
			return
		}
		// iff: same host, other port => same token; different host => different token
		other := net.JoinHostPort(a.host, genPort(r))
		t2, _, err2, pan2 := safeExtract(ipx, &http.Request{RemoteAddr: other})
		b := genAddr(r)
		if pan2 == nil && err2 == nil && t2 != tok {
			c.Violation("clientip/"+a.class, sfmt("same address, different port: %q -> %q but %q -> %q", a.addr, tok, other, t2), nil)
		}
		if b.well && b.host != a.host {
			t3, _, err3, pan3 := safeExtract(ipx, &http.Request{RemoteAddr: b.addr})
			c.Eval()
			if pan3 == nil && err3 == nil && t3 == tok {
				c.Violation("clientip/"+b.class, sfmt("different addresses share a token: %q and %q both -> %q", a.addr, b.addr, tok),
					map[string]any{"a": a.addr, "b": b.addr, "token": tok})
			}
			c.Count("pairs_distinct_checked", 1)
		}
	})
	c.Require("wellformed_ipv4", 1)
	c.Require("wellformed_ipv6", 1)
	c.Require("wellformed_ipv6zone", 1)

	// request.host and request.header.X
	c.Cases("hosthdr", c.N(2000, 100000), func(i int, r *rand.Rand) {
		host := pick(r, []string{"", "example.com", "example.com:8080", "[::1]:80", "EXAMPLE.com", "a b", "xn--caf-dma.example", genIPv4(r)})
		if r.IntN(3) == 0 {
			host = randToken(r, 1+r.IntN(20))
		}
		if r.IntN(8) == 0 { // long multi-tenant host names with a common suffix and prefix
			host = strings.Repeat("tenant-with-a-long-name.", 5+r.IntN(6)) + randToken(r, 1+r.IntN(8)) + ".example.com"
		}
		hn := pick(r, []string{"X-Source", "x-source", "Authorization", "X-Forwarded-For", "Weird_Name", "A", "authorization", "user-agent", "date", "te", "referer", "session-id", "host-hint", "etag", "query", "dnt", "User-Agent", "X.Tenant", "a.b.c", "request.header.X", "X-Api.Key"})
		if r.IntN(3) == 0 {
			hn = "X-" + randToken(r, 1+r.IntN(10))
		}
		req := &http.Request{Host: host, Header: http.Header{}}
		switch r.IntN(3) { // what a balancer in front has done to the URL is irrelevant to request.host
		case 0:
			req.URL = &url.URL{Scheme: "http", Host: "backend-7.internal:8080", Path: "/"}
		case 1:
			req.URL = &url.URL{Path: "/p"}
		}
		nvals := r.IntN(3)
		var vals []string
		for k := 0; k < nvals; k++ {
			v := randToken(r, r.IntN(12))
			if r.IntN(6) == 0 { // long values sharing a long prefix (bearer tokens of one issuer, API keys)
				v = "Bearer " + strings.Repeat("eyJhbGciOiJSUzI1NiIsInR5cCI6IkpXVCJ9.", 4+r.IntN(100)) + randToken(r, 1+r.IntN(40))
			}
			vals = append(vals, v)
			req.Header.Add(hn, v)
		}
		if r.IntN(2) == 0 {
			req.Header.Add("X-Other", "zzz")
		}
		c.Eval()
		tok, amt, err, pan := safeExtract(hostx, req)
		if pan != nil || err != nil || tok != host || amt != 1 {
			c.Violation("host/mismatch", sfmt("request.host on Host %q gave %q,%d,%v,%v", host, tok, amt, err, pan), nil)
		}
		hx, err := utils.NewExtractor("request.header." + hn)
		if err != nil {
			c.Violation("header/constructor", sfmt("NewExtractor(request.header.%s): %v", hn, err), nil)
			return
		}
		tok, amt, err, pan = safeExtract(hx, req)
		want := req.Header.Get(hn)
		if pan != nil || err != nil || tok != want || amt != 1 {
			c.Violation("header/mismatch", sfmt("request.header.%s with values %q gave %q,%d,%v,%v want %q", hn, vals, tok, amt, err, pan, want), nil)
		}
		c.Nontrivial(sfmt("hh/%s/%s/%q", host, hn, vals))
	})

	// unsupported variables are refused
	c.Cases("vars", c.N(500, 20000), func(i int, r *rand.Rand) {
		fixed := []string{"", "client", "client.ip ", " client.ip", "Client.IP", "client.ip.x", "request", "request.", "request.hostx", "request.host.", "request.header", "request.header.", "request.headers.X", "client.port", "request.url", "request.header", "REQUEST.HOST",
			"backend.request.header.X-Tenant", " request.header.X-Tenant", "client.ip,request.header.X-Tenant", "request.host+request.header.X-T", "xrequest.header.A", "my.client.ip", "client.ip.request.host", "not.request.host", "request.hostrequest.header.X"}
		v := pick(r, fixed)
		if r.IntN(2) == 0 {
			v = randToken(r, r.IntN(16))
		}
		supported := v == "client.ip" || v == "request.host" || (strings.HasPrefix(v, "request.header.") && len(v) > len("request.header."))
		c.Eval()
		ex, err := func() (ex utils.SourceExtractor, err error) {
			defer func() {
				if p := recover(); p != nil {
					err = fmt.Errorf("panic: %v", p)
					c.Violation("vars/panic", sfmt("NewExtractor(%q) panicked: %v", v, p), nil)
				}
			}()
			return utils.NewExtractor(v)
		}()
		if !supported {
			c.Nontrivial("var/" + v)
			c.Count("unsupported_refused_checked", 1)
			if err == nil || ex != nil {
				c.Violation("vars/accepted", sfmt("unsupported variable %q accepted", v), nil)
			}
		} else if err != nil {
			c.Violation("vars/refused", sfmt("supported variable %q refused: %v", v, err), nil)
		}
	})
	c.Require("unsupported_refused_checked", 1)
}

func randToken(r *rand.Rand, n int) string {
	const al = "abcdefghijklmnopqrstuvwxyzABCDEFGHIJKLMNOPQRSTUVWXYZ0123456789-_."
	b := make([]byte, n)
	for i := range b {
		b[i] = al[r.IntN(len(al))]
	}
	return string(b)
}

// c19Sockets: RemoteAddr strings as net/http really produces them, over real sockets.
func c19Sockets(c *Ctx) {
	ipx, _ := utils.NewExtractor("client.ip")
	type obs struct {
		remote, tok string
		amt        int64
		err        error
	}
	var mu sync.Mutex
	var seen []obs
	h := http.HandlerFunc(func(w http.ResponseWriter, req *http.Request) {
		tok, amt, err := ipx.Extract(req)
		mu.Lock()
		seen = append(seen, obs{req.RemoteAddr, tok, amt, err})
		mu.Unlock()
	})
	for _, network := range []struct{ name, listen string }{{"tcp4", "127.0.0.1:0"}, {"tcp6", "[::1]:0"}} {
		probe, err := listenRetry(network.name, network.listen)
		if err != nil {
			c.Count("listen_failed_"+network.name, 1)
			continue
		}
		probe.Close()
		srv := newUnstartedServer(h, network.name, network.listen)
		srv.Start()
		n := c.N(20, 200)
		for i := 0; i < n; i++ {
			tr := &http.Transport{DisableKeepAlives: true}
			resp, err := (&http.Client{Transport: tr}).Get(srv.URL)
			if err == nil {
				resp.Body.Close()
			}
			tr.CloseIdleConnections()
		}
		srv.Close()
	}
	mu.Lock()
	defer mu.Unlock()
	for _, o := range seen {
		c.Eval()
		host, _, err := net.SplitHostPort(o.remote)
		if err != nil {
			continue
		}
		c.Nontrivial("sock/" + o.remote)
		c.Count("socket_requests", 1)
		c.Sample(map[string]any{"remote_addr": o.remote, "token": o.tok})
		cls := "ipv4"
		if strings.Contains(host, ":") {
			cls = "ipv6"
		}
		if o.err != nil || o.tok != host || o.amt != 1 {
			c.Violation("clientip/"+cls, sfmt("real socket RemoteAddr %q gave token %q amount %d err %v; want %q", o.remote, o.tok, o.amt, o.err, host), nil)
		}
	}
	c.Require("socket_requests", 2)
}

// c19Conc: one extractor object serves all requests of a limiter, concurrently: every peer must get its own address,
// every header its own value, whatever else is being extracted at the same moment (race build).
func c19Conc(c *Ctx) {
	c.Cases("conc", c.N(20, 120), func(i int, r *rand.Rand) {
		ipx, err1 := utils.NewExtractor("client.ip")
		hx, err2 := utils.NewExtractor("request.header.X-Api-Key")
		hostx, err3 := utils.NewExtractor("request.host")
		if err1 != nil || err2 != nil || err3 != nil {
			c.Violation("vars/refused", sfmt("constructors failed: %v %v %v", err1, err2, err3), nil)
			return
		}
		const G = 8
		peers := make([]c19Addr, G)
		for g := range peers {
			for {
				peers[g] = genAddr(r)
				if peers[g].well {
					break
				}
			}
		}
		per := c.N(20000, 60000)
		var bad atomic.Int64
		var first sync.Map
		var wg sync.WaitGroup
		var start atomic.Bool
		for g := 0; g < G; g++ {
			wg.Add(1)
			go func(g int) {
				defer wg.Done()
				key := sfmt("key-of-client-%d", g)
				host := sfmt("tenant%d.example.com", g)
				req := &http.Request{RemoteAddr: peers[g].addr, Host: host, Header: http.Header{"X-Api-Key": {key}}}
				for !start.Load() {
				}
				for k := 0; k < per; k++ {
					if tok, amt, err := ipx.Extract(req); err != nil || tok != peers[g].host || amt != 1 {
						bad.Add(1)
						first.LoadOrStore("client.ip", sfmt("peer %q got token %q amount %d err %v", peers[g].addr, tok, amt, err))
					}
					if tok, amt, err := hx.Extract(req); err != nil || tok != key || amt != 1 {
						bad.Add(1)
						first.LoadOrStore("request.header", sfmt("header value %q gave token %q amount %d err %v", key, tok, amt, err))
					}
					if tok, amt, err := hostx.Extract(req); err != nil || tok != host || amt != 1 {
						bad.Add(1)
						first.LoadOrStore("request.host", sfmt("host %q gave token %q amount %d err %v", host, tok, amt, err))
					}
				}
			}(g)
		}
		start.Store(true)
		wg.Wait()
		c.Eval()
		c.Count("concurrent_extractions", int64(3*G*per))
		if n := bad.Load(); n > 0 {
			var ex []string
			first.Range(func(k, v any) bool { ex = append(ex, sfmt("%v: %v", k, v)); return true })
			c.Violation("conc/wrong-token", sfmt("%d of %d extractions made concurrently for %d different peers returned another request's token, e.g. %v", n, 3*G*per, G, ex), nil)
			return
		}
		c.Nontrivial(sfmt("conc/%d/%v", i, peers[0].addr))
	})
}
