package main

import (
	"net/http/httptest"
	"time"
	"runtime"
	"bytes"
	"crypto/sha256"
	"fmt"
	"io"
	"math/rand/v2"
	"net/http"
	"sort"
	"strings"
	"sync"

	"github.com/vulcand/oxy/v2/buffer"
)

func init() {
	register(&Property{
		ID:    "C06",
		Level: "exploration",
		Rule: "real HTTP server in front of buffer.New(handler, Retry, MemRequestBodyBytes(m)); bodies of length {0,1,m-1,m,m+1,2m,...,3MB} for m in {1,512,64k,1MB default}, declared length or chunked, 0-6 extra headers (multi-valued), 1-4 attempts where each failed attempt consumes none / k bytes / all of the body, then poisons r.Header (set, append, delete), r.URL (path, query) and closes the body before answering a retryable status; " +
			"failed attempts may leave readers of their body behind (slow reader, gated io.Copy into a slow sink released during the next attempt, byte-wise spinning reader); a front middleware writes non-canonical and case-colliding header names into the map; verbose mode with a formatting Logger; credential headers; " +
			"on every attempt the handler-side observation (method, URL, header set, ContentLength, TransferEncoding, body bytes) is compared with the client's own copy / the pristine values of attempt 1; non-trivial = body above the memory threshold or >= 2 attempts; distinct by (size, framing, m, attempt script)",
		Assumptions: []string{"requests are sent by net/http's client over a real socket", "byte equality by SHA-256 + length + first differing offset"},
		Parts:       []Part{{Name: "replay", Shards: 12, Fn: c06Replay}, {Name: "inprocess", Shards: 2, Fn: c06InProcess}},
	})
}

func detBody(n int, seed uint64) []byte {
	b := make([]byte, n)
	x := seed*2862933555777941757 + 3037000493
	for i := range b {
		x ^= x << 13
		x ^= x >> 7
		x ^= x << 17
		b[i] = byte(x)
	}
	return b
}

type c06Attempt struct {
	Read   int  `json:"read"`   // -1 all, 0 none, k bytes
	Poison int  `json:"poison"` // bit set
	Close  bool `json:"close"`
	How    int  `json:"how"` // how "all" is read: 0 io.ReadAll, 1 io.Copy, 2 through a MaxBytesReader wrapper
}

type c06Seen struct {
	method, url, proto string
	hdr                http.Header
	cl                 int64
	te                 []string
	got                []byte
	readAll            bool
	rerr               error // error of a plain ReadAll of the whole body
}

func hdrEqual(a, b http.Header) (bool, string) {
	var keys []string
	seen := map[string]bool{}
	for k := range a {
		keys = append(keys, k)
		seen[k] = true
	}
	for k := range b {
		if !seen[k] {
			keys = append(keys, k)
		}
	}
	sort.Strings(keys)
	for _, k := range keys {
		if strings.Join(a[k], "\x00") != strings.Join(b[k], "\x00") {
			return false, fmt.Sprintf("header %q: %q vs %q", k, a[k], b[k])
		}
	}
	return true, ""
}

func firstDiff(a, b []byte) int {
	n := min(len(a), len(b))
	for i := 0; i < n; i++ {
		if a[i] != b[i] {
			return i
		}
	}
	if len(a) != len(b) {
		return n
	}
	return -1
}

// c06GateSink is a slow destination: its first Write blocks until the gate opens.
type c06GateSink struct {
	gate, entered, done chan struct{}
	once                sync.Once
}

func (g *c06GateSink) Write(p []byte) (int, error) {
	g.once.Do(func() { close(g.entered) })
	<-g.gate
	return len(p), nil
}

func c06Replay(c *Ctx) {
	// (the timeout is a watchdog: an exchange takes milliseconds; one that never completes is reported as failed)
	client := &http.Client{Transport: &http.Transport{MaxIdleConnsPerHost: 4}, Timeout: 90 * time.Second}
	srv := newSwapServer()
	defer srv.Close()
	c.Cases("case", c.N(800, 15000), func(i int, r *rand.Rand) {
		mems := []int64{1, 512, 64 << 10, 0}
		mem := pick(r, mems)
		effMem := mem
		if mem == 0 {
			effMem = buffer.DefaultMemBodyBytes
		}
		var size int
		switch r.IntN(9) {
		case 0:
			size = 0
		case 1:
			size = 1
		case 2:
			size = int(effMem) - 1
		case 3:
			size = int(effMem)
		case 4:
			size = int(effMem) + 1
		case 5:
			size = 2 * int(effMem)
		case 6:
			size = 3 << 20
		default:
			size = r.IntN(200000)
		}
		if size < 0 {
			size = 0
		}
		if c.Quick() && size > 1<<20+1 && i%8 != 0 {
			size = size % (300 << 10)
		}
		chunked := r.IntN(2) == 0
		body := detBody(size, uint64(i)*977+c.Seed)
		nAttempts := 1 + r.IntN(4)
		attempts := make([]c06Attempt, nAttempts)
		for k := range attempts {
			a := c06Attempt{Poison: r.IntN(256), Close: r.IntN(2) == 0, How: r.IntN(3)}
			switch r.IntN(3) {
			case 0:
				a.Read = 0
			case 1:
				a.Read = -1
			default:
				a.Read = r.IntN(size + 1)
			}
			attempts[k] = a
		}
		attempts[nAttempts-1].Read = -1
		var mu sync.Mutex
		var stragglers sync.WaitGroup
		defer stragglers.Wait()
		var seen []c06Seen
		var gated []*c06GateSink
		defer func() { // whatever happened, no left-over copy stays blocked in its sink
			mu.Lock()
			gs := gated
			gated = nil
			mu.Unlock()
			for _, g := range gs {
				close(g.gate)
			}
		}()
		h := http.HandlerFunc(func(w http.ResponseWriter, req *http.Request) {
			mu.Lock()
			k := len(seen)
			gs := gated
			gated = nil
			mu.Unlock()
			// left-over copies of earlier attempts' bodies are let go now and run to their end before this attempt reads
			for _, g := range gs {
				close(g.gate)
				select {
				case <-g.done:
				case <-time.After(20 * time.Second):
				}
			}
			a := attempts[min(k, nAttempts-1)]
			s := c06Seen{method: req.Method, url: req.URL.String(), proto: req.Proto, hdr: req.Header.Clone(), cl: req.ContentLength, te: append([]string(nil), req.TransferEncoding...)}
			switch {
			case a.Read == -1 && a.How == 1:
				// io.Copy prefers the body's WriteTo when it has one
				var bb bytes.Buffer
				_, _ = io.Copy(&bb, req.Body)
				s.got = bb.Bytes()
				s.readAll = true
			case a.Read == -1 && a.How == 2:
				// read through a wrapper that replaces req.Body, as http.MaxBytesReader users do
				req.Body = http.MaxBytesReader(w, req.Body, 1<<40)
				s.got, _ = io.ReadAll(req.Body)
				s.readAll = true
			case a.Read == -1:
				s.got, s.rerr = io.ReadAll(req.Body)
				s.readAll = true
			case a.Read > 0:
				buf := make([]byte, a.Read)
				n, _ := io.ReadFull(req.Body, buf)
				s.got = buf[:n]
			}
			// poison what the next attempt must not see
			if a.Poison&1 != 0 {
				req.Header.Set("X-Client-A", "poisoned")
			}
			if a.Poison&2 != 0 {
				req.Header.Add("X-Client-Multi", "appended-by-attempt")
			}
			if a.Poison&4 != 0 {
				req.Header.Del("X-Client-B")
				req.Header.Del("Content-Type")
			}
			if a.Poison&8 != 0 {
				req.URL.Path = "/poisoned"
				req.URL.RawQuery = "poisoned=1"
			}
			if a.Poison&16 != 0 {
				req.Header["X-New-By-Attempt"] = []string{"x"}
				req.Method = "DELETE"
			}
			if a.Poison&32 != 0 {
				req.ContentLength = 7
				req.TransferEncoding = []string{"chunked"}
			}
			if a.Poison&64 != 0 { // edit header values in place (no Set/Add/Del: the value slices themselves)
				if v := req.Header["X-Client-Multi"]; len(v) > 0 {
					v[0] = "edited-in-place"
					sort.Strings(v)
				}
				if v := req.Header["X-Client-A"]; len(v) > 0 {
					v[0] = "REDACTED"
				}
			}
			if a.Poison&128 != 0 && k < nAttempts-1 && a.How == 1 {
				// an asynchronous copy of the failed attempt's body (io.Copy: uses the body's WriteTo when it has one) to a
				// slow destination: still blocked in its first write when the attempt returns, resumed during the next one
				g := &c06GateSink{gate: make(chan struct{}), entered: make(chan struct{}), done: make(chan struct{})}
				stragglers.Add(1)
				go func(b io.Reader) {
					defer stragglers.Done()
					defer close(g.done)
					_, _ = io.Copy(g, b)
				}(req.Body)
				select {
				case <-g.entered:
				case <-g.done:
				case <-time.After(20 * time.Second):
				}
				mu.Lock()
				gated = append(gated, g)
				mu.Unlock()
				c.Count("gated_copy_stragglers", 1)
			} else if a.Poison&128 != 0 && k < nAttempts-1 && a.How == 2 {
				// a reader of the failed attempt's body that is in the middle of a tight read loop when the attempt returns
				// (byte-wise reads: it is still far from the end of the body when the buffer prepares the next attempt)
				stragglers.Add(1)
				started := make(chan struct{})
				go func(b io.Reader) {
					defer stragglers.Done()
					one := make([]byte, 1)
					close(started)
					for q := 0; q < 20000000; q++ {
						if _, err := b.Read(one); err != nil {
							return
						}
					}
				}(req.Body)
				<-started
				c.Count("spinning_stragglers", 1)
			} else if a.Poison&128 != 0 && a.How == 0 && a.Read == -1 {
				// a holder of this attempt's body that wakes up now and then long after the request is over and tries to read
				// again, whatever it is told (not waited for: it lives on into the following requests)
				go func(b io.Reader) {
					buf := make([]byte, 512)
					for q := 0; q < 400; q++ {
						_, _ = b.Read(buf)
						time.Sleep(time.Duration(50+q%7*40) * time.Microsecond)
					}
				}(req.Body)
				c.Count("lingering_holders", 1)
			} else if a.Poison&128 != 0 && k < nAttempts-1 {
				// something keeps the failed attempt's body and goes on reading it after the attempt has returned
				stragglers.Add(1)
				go func(b io.Reader) {
					defer stragglers.Done()
					buf := make([]byte, 777)
					for q := 0; q < 200; q++ {
						if _, err := b.Read(buf); err != nil {
							return
						}
						runtime.Gosched()
					}
				}(req.Body)
			} else if a.Close {
				_ = req.Body.Close()
			}
			mu.Lock()
			seen = append(seen, s)
			mu.Unlock()
			if k < nAttempts-1 {
				w.WriteHeader(503)
				return
			}
			w.WriteHeader(200)
		})
		opts := []buffer.Option{buffer.Retry(`ResponseCode() == 503 && Attempts() <= 9`)}
		if mem != 0 {
			opts = append(opts, buffer.MemRequestBodyBytes(mem))
		}
		if i%4 == 1 {
			// verbose mode with a Logger that really formats what it is given (the request is dumped before it is served)
			opts = append(opts, buffer.Verbose(true), buffer.Logger(fmtLogger{}))
			c.Count("cases_verbose", 1)
		}
		buf, err := buffer.New(h, opts...)
		if err != nil {
			c.Violation("constructor", err.Error(), nil)
			return
		}
		// an earlier middleware may write header names straight into the map (back ends that are picky about header case):
		// those names are part of the request the buffer receives
		rawNames := map[string][]string{}
		if i%3 == 0 {
			rawNames = map[string][]string{"x-raw-key": {"v1", "v2"}, "SOAPAction": {"urn:x"}, "x-client-a": {"raw-twin"}}
			c.Count("cases_with_raw_header_names", 1)
		}
		srv.set(http.HandlerFunc(func(w http.ResponseWriter, req *http.Request) {
			for k, v := range rawNames {
				req.Header[k] = append([]string(nil), v...)
			}
			buf.ServeHTTP(w, req)
		}))
		method := pick(r, []string{"POST", "PUT", "POST", "PATCH"})
		target := srv.URL + pick(r, []string{"/upload", "/a%2Fb/c", "/p?x=1&y=%20z", "/", "/semi;colon?q=a+b", "/p?", "/dir/?"})
		var rd io.Reader = bytes.NewReader(body)
		if chunked {
			rd = struct{ io.Reader }{rd} // hides the length: net/http sends it chunked
		}
		req, _ := http.NewRequest(method, target, rd)
		req.Header.Set("X-Client-A", "alpha")
		req.Header.Set("X-Client-B", "beta")
		req.Header.Add("X-Client-Multi", "one")
		req.Header.Add("X-Client-Multi", "two")
		if i%2 == 0 { // a field line repeated with the same value (the same hop twice, repeated tags)
			req.Header.Add("X-Client-Multi", "one")
			req.Header.Add("X-Hop", "10.0.0.1")
			req.Header.Add("X-Hop", "10.0.0.2")
			req.Header.Add("X-Hop", "10.0.0.1")
		}
		req.Header.Set("Content-Type", pick(r, []string{"application/octet-stream", "application/octet-stream", "application/x-www-form-urlencoded", "application/json"}))
		if r.IntN(2) == 0 {
			req.Header.Set("Authorization", "Bearer "+randToken(r, 12))
			req.Header.Set("Proxy-Authorization", "Basic "+randToken(r, 8))
			req.Header.Set("Cookie", "session="+randToken(r, 10))
		}
		for k := r.IntN(4); k > 0; k-- {
			req.Header.Add("X-Rand-"+randToken(r, 3), randToken(r, 1+r.IntN(20)))
		}
		sent := req.Header.Clone()
		for k, v := range rawNames {
			sent[k] = v
		}
		resp, err := client.Do(req)
		desc := map[string]any{"size": size, "chunked": chunked, "mem_threshold": effMem, "attempts": attempts, "method": method, "target": target}
		c.Eval()
		if err != nil {
			c.Violation("exchange/failed", sfmt("request failed: %v", err), desc)
			if strings.Contains(err.Error(), "Client.Timeout") {
				client.Timeout = 3 * time.Second // reported; the rest of this process is not made to wait 90s per case
			}
			return
		}
		io.Copy(io.Discard, resp.Body)
		resp.Body.Close()
		mu.Lock()
		defer mu.Unlock()
		if resp.StatusCode != 200 || len(seen) != nAttempts {
			// retry/response semantics are C07's concern; without the expected attempts C06 cannot be decided here
			c.Count("cases_with_unexpected_attempt_count", 1)
			if len(seen) == 0 {
				c.Violation("exchange/handler-not-reached", sfmt("status %d, handler invoked %d times (expected %d)", resp.StatusCode, len(seen), nAttempts), desc)
			}
			return
		}
		wantSum := sha256.Sum256(body)
		for k, s := range seen {
			c.Count("attempts_checked", 1)
			where := sfmt("attempt %d of %d (size %d, chunked=%v, mem=%d)", k+1, nAttempts, size, chunked, effMem)
			if s.cl != int64(size) {
				c.Violation("length/content-length", sfmt("%s: handler saw ContentLength %d, body has %d bytes", where, s.cl, size), desc)
				return
			}
			if len(s.te) != 0 {
				c.Violation("length/transfer-encoding", sfmt("%s: handler saw TransferEncoding %v", where, s.te), desc)
				return
			}
			if s.rerr != nil {
				c.Violation("body/read-error", sfmt("%s: reading the whole body failed with %v after %d bytes", where, s.rerr, len(s.got)), desc)
				return
			}
			if s.readAll {
				if sha256.Sum256(s.got) != wantSum {
					key := "body/first-attempt"
					if k > 0 {
						key = "body/replay"
					}
					c.Violation(key, sfmt("%s: handler read %d bytes, client sent %d; first difference at offset %d", where, len(s.got), size, firstDiff(s.got, body)), desc)
					return
				}
			} else if len(s.got) > 0 {
				if !bytes.Equal(s.got, body[:len(s.got)]) {
					c.Violation("body/replay", sfmt("%s: the first %d bytes read differ from the client's at offset %d", where, len(s.got), firstDiff(s.got, body[:len(s.got)])), desc)
					return
				}
			}
			if s.method != method {
				c.Violation("replay/method", sfmt("%s: method %q, client sent %q", where, s.method, method), desc)
				return
			}
			if s.url != seen[0].url {
				c.Violation("replay/url", sfmt("%s: URL %q, attempt 1 saw %q", where, s.url, seen[0].url), desc)
				return
			}
			if ok, why := hdrEqual(s.hdr, seen[0].hdr); !ok {
				c.Violation("replay/headers", sfmt("%s: header set differs from the pristine one of attempt 1: %s", where, why), desc)
				return
			}
		}
		// attempt 1 against what the client sent
		for k, v := range sent {
			if strings.Join(seen[0].hdr[k], "\x00") != strings.Join(v, "\x00") {
				c.Violation("replay/headers", sfmt("attempt 1: header %q is %q, client sent %q", k, seen[0].hdr[k], v), desc)
				return
			}
		}
		if !strings.HasSuffix(target, seen[0].url) {
			c.Violation("replay/url", sfmt("attempt 1 saw URL %q for target %q", seen[0].url, target), desc)
			return
		}
		if int64(size) > effMem || nAttempts >= 2 {
			c.Nontrivial(sfmt("%d/%v/%d/%v", size, chunked, effMem, attempts))
			c.Count("cases_nontrivial", 1)
		}
		if int64(size) > effMem {
			c.Count("cases_spilled_to_disk", 1)
		}
		if i < 3 {
			c.Sample(desc)
		}
	})
	c.Require("cases_nontrivial", 2)
	c.Require("cases_spilled_to_disk", 1)
}

// c06InProcess: the buffer called directly (behind another middleware, or under HTTP/2) with a body of unknown length that
// is not "chunked" (ContentLength -1, no Transfer-Encoding), or with a length some earlier step left at -1: the handler
// receives the bytes with the true length declared, on every attempt.
func c06InProcess(c *Ctx) {
	c.Cases("inprocess", c.N(300, 6000), func(i int, r *rand.Rand) {
		size := pick(r, []int{0, 1, 100, 4096, 70000, 1 << 20, 1<<20 + 1})
		if r.IntN(2) == 0 {
			size = r.IntN(100000)
		}
		body := detBody(size, uint64(i)+c.Seed)
		nAttempts := 1 + r.IntN(3)
		var seenLen []int64
		var seenBody [][]byte
		var seenTE [][]string
		h := http.HandlerFunc(func(w http.ResponseWriter, req *http.Request) {
			b, _ := io.ReadAll(req.Body)
			seenLen = append(seenLen, req.ContentLength)
			seenBody = append(seenBody, b)
			seenTE = append(seenTE, append([]string(nil), req.TransferEncoding...))
			if len(seenLen) < nAttempts {
				w.WriteHeader(503)
				return
			}
			w.WriteHeader(200)
		})
		opts := []buffer.Option{buffer.Retry(`ResponseCode() == 503 && Attempts() <= 5`)}
		if m := pick(r, []int64{0, 1, 512}); m > 0 {
			opts = append(opts, buffer.MemRequestBodyBytes(m))
		}
		buf, err := buffer.New(h, opts...)
		if err != nil {
			c.Violation("constructor", err.Error(), nil)
			return
		}
		req := httptest.NewRequest(pick(r, []string{"POST", "PUT"}), "http://front.test/upload", nil)
		req.Body = io.NopCloser(struct{ io.Reader }{bytes.NewReader(body)})
		req.ContentLength = -1
		// a third of the cases declare a length that is not the body's (what a body-rewriting middleware in front of
		// the buffer leaves behind, e.g. request decompression): the handler must still be told the true length
		declared := int64(-1)
		if i%3 == 1 && size >= 2 {
			declared = pick(r, []int64{1, int64(size) / 2, int64(size) - 1, int64(size) + 7})
			req.ContentLength = declared
			c.Count("inprocess_misdeclared_lengths", 1)
		}
		req.TransferEncoding = nil
		if r.IntN(3) == 0 {
			req.ProtoMajor, req.ProtoMinor, req.Proto = 2, 0, "HTTP/2.0"
		}
		rec := httptest.NewRecorder()
		buf.ServeHTTP(rec, req)
		c.Eval()
		desc := map[string]any{"size": size, "attempts": nAttempts, "proto": req.Proto, "declared_length": declared}
		if rec.Code != 200 || len(seenLen) != nAttempts {
			c.Violation("exchange/failed", sfmt("in-process request (%d-byte body, unknown or mis-declared length): status %d, handler invoked %d times (expected %d)", size, rec.Code, len(seenLen), nAttempts), desc)
			return
		}
		for k := range seenLen {
			if seenLen[k] != int64(size) || len(seenTE[k]) != 0 {
				c.Violation("length/content-length", sfmt("attempt %d of %d: handler saw ContentLength %d and TransferEncoding %v, the body has %d bytes", k+1, nAttempts, seenLen[k], seenTE[k], size), desc)
				return
			}
			if !bytes.Equal(seenBody[k], body) {
				key := "body/first-attempt"
				if k > 0 {
					key = "body/replay"
				}
				c.Violation(key, sfmt("attempt %d of %d: handler read %d bytes, the request body has %d; first difference at offset %d", k+1, nAttempts, len(seenBody[k]), size, firstDiff(seenBody[k], body)), desc)
				return
			}
		}
		c.Nontrivial(sfmt("inproc/%d/%d/%d", size, nAttempts, i))
	})
}
