package main

import (
	"math/big"
	"sync/atomic"
	"sync"
	"math/rand/v2"
	"net/http"
	"net/http/httptest"
	"strconv"
	"time"

	"github.com/vulcand/oxy/v2/ratelimit"
)

func init() {
	register(&Property{
		ID:    "C13",
		Level: "exploration",
		Rule: "bucket states reached by random arrival histories on the frozen clock (single and 2-3 rate sets); metamorphic twins: the same history on two instances, one additionally flooded with k in {1,10,1000} rejected requests (amount <= burst but unavailable, or > burst), then both drained one token at a time at the same instant (and after a further common advance): drain counts must be equal; " +
			"a rejected request of amount <= burst is retried after exactly the advertised delay and must pass; an idle source must drain exactly min burst after burst*period/average; amount > burst must yield an error, not a delay; run on TokenBucketSet.Consume and on TokenLimiter.ServeHTTP (X-Retry-In); " +
			"a quarter of the states are re-configured in place (RateSet.Add on the object in use) before the idle-refill and over-burst steps; concurrent floods alternate amounts and every rejection must advertise amount x token time; " +
			"part tiers: per-request rate plans for one source (ExtractRates: same period, different averages): a twin flooded with refused requests under the slower plan a fraction of a token time after the burst was used must hand out exactly what the silent twin hands out one token time after the burst; " +
			"non-trivial = state in which the probe was really rejected (drain count < amount <= burst); distinct by (rates, history, k)",
		Assumptions: []string{"frozen library clock (hook)", "twin comparison at a single instant so that legitimate sub-token refill effects cancel"},
		Parts: []Part{
			{Name: "set", Shards: 8, Fn: c13Set},
			{Name: "http", Shards: 8, Fn: c13HTTP},
			{Name: "floodconc", Race: true, Shards: 4, Fn: c13FloodConc},
			{Name: "tiers", Shards: 4, Fn: c13Tiers},
		},
	})
}

// bucket abstracts the two API levels.
type c13Bucket interface {
	// consume returns admitted, delay (valid when rejected without error), isErr
	consume(amt int64) (bool, time.Duration, bool)
	// reconf changes the RateSet object the bucket is limited by in place (same periods, new average/burst)
	reconf(rs []rateSpec)
}

type setBucket struct {
	s   *ratelimit.TokenBucketSet
	set *ratelimit.RateSet
}

func c13Reconf(set *ratelimit.RateSet, rs []rateSpec) {
	for _, x := range rs {
		if err := set.Add(x.Period, x.Average, x.Burst); err != nil {
			panic(err)
		}
	}
}

// the limiter brings the buckets in accordance with the effective rates on every request; at this level the caller does
func (b setBucket) reconf(rs []rateSpec) { c13Reconf(b.set, rs); b.s.Update(b.set) }

func (b httpBucket) reconf(rs []rateSpec) { c13Reconf(b.set, rs) }

func (b setBucket) consume(amt int64) (bool, time.Duration, bool) {
	d, err := b.s.Consume(amt)
	if err != nil {
		return false, d, true
	}
	return d == 0, d, false
}

type httpBucket struct {
	tl       *ratelimit.TokenLimiter
	admitted *int
	src      string
	set      *ratelimit.RateSet
}

func (b httpBucket) consume(amt int64) (bool, time.Duration, bool) {
	req := httptest.NewRequest("GET", "http://x.test/", nil)
	req.Header.Set("X-Src", b.src)
	req.Header.Set("X-Amt", strconv.FormatInt(amt, 10))
	rec := httptest.NewRecorder()
	before := *b.admitted
	b.tl.ServeHTTP(rec, req)
	if *b.admitted == before+1 {
		return true, 0, false
	}
	if rec.Code == http.StatusTooManyRequests {
		d, err := time.ParseDuration(rec.Header().Get("X-Retry-In"))
		if err != nil {
			return false, -1, false
		}
		return false, d, false
	}
	return false, 0, true
}

func c13Drain(b c13Bucket, cap int64) int64 {
	var n int64
	if cap > 2000 { // very large bursts are drained in big gulps first
		for _, gulp := range []int64{1000000, 1000} {
			for cap >= 2*gulp && n+gulp <= cap {
				if ok, _, _ := b.consume(gulp); !ok {
					break
				}
				n += gulp
			}
		}
	}
	for n <= cap+2 {
		ok, _, _ := b.consume(1)
		if !ok {
			return n
		}
		n++
	}
	return n
}

func c13Run(c *Ctx, level string, mk func(rs []rateSpec) c13Bucket) {
	c.Cases("state", c.N(2500, 80000), func(i int, r *rand.Rand) {
		rs := genRates(r, 3)
		if i%7 == 6 { // quota / bandwidth style: long period or huge average, idles of many refill times
			rs = []rateSpec{pick(r, []rateSpec{{24 * time.Hour, 50000, 5}, {time.Hour, 1000000, 1000000}, {time.Hour, 100000000, 50000000}, {24 * time.Hour, 500000000, 500000000}, {time.Minute, 20000000, 100}, {time.Hour, 3000000, 50}})}
			c.Count("quota_style_states", 1)
		}
		if i%3 == 0 && len(rs) < 2 { // multi-rate shapes in which the short-period bucket refuses while the long one could pay
			rs = []rateSpec{{time.Second, int64(1 + r.IntN(5)), int64(1 + r.IntN(5))}, {time.Minute, int64(20 + r.IntN(100)), int64(20 + r.IntN(100))}}
		}
		var minBurst int64 = 1 << 62
		var maxRefill time.Duration
		for _, x := range rs {
			if x.Burst < minBurst {
				minBurst = x.Burst
			}
			// ceil(burst*period/average): never less than the idle time the statement names
			if t := c13RefillTime(x); t > maxRefill {
				maxRefill = t
			}
		}
		start := baseTime.Add(time.Duration(r.Int64N(int64(time.Hour))))
		freeze(start)
		defer unfreeze()
		A, B, P := mk(rs), mk(rs), mk(rs)
		// common history
		var hist []string
		nh := r.IntN(60)
		tok := rs[0].Period / time.Duration(rs[0].Average)
		for s := 0; s < nh; s++ {
			if r.IntN(3) == 0 {
				d := time.Duration(r.Int64N(int64(3*tok) + 1))
				advance(d)
				hist = append(hist, sfmt("adv%v", d))
				continue
			}
			amt := int64(1)
			if r.IntN(3) == 0 {
				amt = 1 + r.Int64N(minBurst)
			}
			a1, d1, e1 := A.consume(amt)
			a2, d2, e2 := B.consume(amt)
			a3, _, _ := P.consume(amt)
			hist = append(hist, sfmt("c%d:%v", amt, a1))
			if a1 != a2 || a1 != a3 || e1 != e2 || (!a1 && !e1 && d1 != d2) {
				c.Violation(level+"/twin-diverged", sfmt("rates %v: identical histories on two instances diverged at step %d (%v,%v,%v vs %v,%v,%v)", rs, s, a1, d1, e1, a2, d2, e2), map[string]any{"rates": rs, "history": hist})
				return
			}
		}
		c.Eval()
		desc := map[string]any{"level": level, "rates": rs, "history": hist}
		// probe: how many single tokens are available now?
		avail := c13Drain(P, minBurst)
		k := pick(r, []int{1, 10, 1000})
		mode := r.IntN(3) // 0: amount<=burst unavailable, 1: amount>burst, 2: mixed
		realReject := false
		for f := 0; f < k; f++ {
			amt := minBurst + 1 + r.Int64N(3)
			if (mode == 0 || (mode == 2 && f%2 == 0)) && avail < minBurst {
				amt = avail + 1 + r.Int64N(minBurst-avail)
				realReject = true
			}
			ok, d, isErr := B.consume(amt)
			if ok {
				c.Violation(level+"/flood-admitted", sfmt("rates %v: request of amount %d admitted although only %d single tokens are available (burst min %d)", rs, amt, avail, minBurst), desc)
				return
			}
			if amt > minBurst && !isErr {
				c.Violation(level+"/over-burst-not-error", sfmt("rates %v: amount %d > burst %d was answered with a delay (%v) instead of an error", rs, amt, minBurst, d), desc)
				return
			}
			if amt <= minBurst && (isErr || d <= 0) {
				c.Violation(level+"/reject-without-delay", sfmt("rates %v: amount %d <= burst rejected without a positive delay (delay %v err %v)", rs, amt, d, isErr), desc)
				return
			}
		}
		c.Count("rejected_requests_injected", int64(k))
		variant := r.IntN(3)
		if variant > 0 {
			// both twins observe the same later instant; A is touched with a zero-amount request at the flood instant
			// so that both performed a refill computation there
			A.consume(0)
			B.consume(0)
			d := time.Duration(r.Int64N(int64(2*maxRefill) + 1))
			if variant == 2 {
				d = rs[0].Period/time.Duration(rs[0].Average)*time.Duration(1+r.IntN(3)) + time.Duration(r.IntN(3)-1)
			}
			advance(d)
			desc["advance_before_drain"] = d.String()
		}
		da, db := c13Drain(A, minBurst), c13Drain(B, minBurst)
		c.Count("twin_comparisons", 1)
		if da != db {
			c.Violation(level+"/rejected-debited", sfmt("rates %v: after %d rejected requests the flooded twin drains %d single tokens, the unflooded twin %d (rejections must cost nothing)", rs, k, db, da), desc)
			return
		}
		if variant == 0 && da != avail {
			c.Violation(level+"/twin-diverged", sfmt("rates %v: probe drained %d, twin %d at the same instant", rs, avail, da), desc)
			return
		}
		if realReject {
			c.Nontrivial(sfmt("%s/%v/%x/%d/%d", level, rs, hash64(sfmt("%v", hist)), k, variant))
			c.Count("states_with_real_rejection", 1)
		}

		// (ii) advertised delay suffices. All three instances are now drained (0 single tokens) at this instant.
		amt := 1 + r.Int64N(minBurst)
		ok, d, isErr := A.consume(amt)
		if ok || isErr || d <= 0 {
			c.Violation(level+"/reject-without-delay", sfmt("rates %v: drained bucket: amount %d gave admitted=%v delay=%v err=%v", rs, amt, ok, d, isErr), desc)
			return
		}
		advance(d)
		ok2, d2, _ := A.consume(amt)
		c.Count("retries_after_advertised_delay", 1)
		if !ok2 {
			c.Violation(level+"/delay-insufficient", sfmt("rates %v: amount %d rejected with advertised delay %v; retried exactly %v later with no other traffic and rejected again (delay %v)", rs, amt, d, d, d2), desc)
			return
		}
		// run-time re-configuration: the rate set the source is limited by is changed in place; everything below is then
		// stated in terms of the new rates
		if i%4 == 3 {
			rs2 := make([]rateSpec, len(rs))
			for k, x := range rs {
				avg := int64(1 + r.IntN(20))
				rs2[k] = rateSpec{x.Period, avg, 1 + r.Int64N(5*avg)}
			}
			A.reconf(rs2)
			B.reconf(rs2)
			rs = rs2
			desc["reconfigured_in_place_to"] = rs2
			minBurst, maxRefill = 1<<62, 0
			for _, x := range rs {
				if x.Burst < minBurst {
					minBurst = x.Burst
				}
				if t := c13RefillTime(x); t > maxRefill {
					maxRefill = t
				}
			}
			c.Count("reconfigurations_in_place", 1)
		}
		// (iii) full burst after idling burst*period/average
		c13Drain(B, minBurst)
		// "after" the statement's idle time includes any longer idle (as long as the source is still remembered or starts afresh)
		idle := maxRefill
		if k := r.IntN(4); k > 0 {
			idle = maxRefill * time.Duration(1+r.IntN(12))
			if lim := 9 * rs[0].Period; idle > lim && lim > maxRefill {
				idle = lim
			}
		}
		advance(idle)
		if got := c13Drain(B, minBurst); got != minBurst {
			maxRefill = idle
			c.Violation(level+"/idle-refill", sfmt("rates %v: after idling %v (= max burst*period/average) the source drains %d single tokens, want the full min burst %d", rs, maxRefill, got, minBurst), desc)
			return
		}
		c.Count("idle_refill_checks", 1)
		// ... and the full burst can be taken in one request as well (after the same idle time again)
		advance(idle)
		if ok, d, isErr := B.consume(minBurst); !ok {
			c.Violation(level+"/full-burst-refused", sfmt("rates %v: after idling %v a single request for the whole min burst %d was refused (delay %v, error %v)", rs, idle, minBurst, d, isErr), desc)
			return
		}
		// (iv) over-burst on a full bucket
		advance(maxRefill)
		ok, d, isErr = A.consume(minBurst + 1)
		if ok || !isErr {
			c.Violation(level+"/over-burst-not-error", sfmt("rates %v: amount %d > burst on a full bucket: admitted=%v delay=%v err=%v", rs, minBurst+1, ok, d, isErr), desc)
			return
		}
		// (v) single-rate only: rejected polls in between do not change what a later request gets. (With several rates a
		// rejected request may legitimately trigger a whole-token refill in a bucket that is not the refusing one, which
		// drops that bucket's remainder; with one rate a rejected request adds no token, so nothing may move.)
		if len(rs) == 1 {
			tpt := rs[0].Period / time.Duration(rs[0].Average)
			X, Y := mk(rs), mk(rs)
			if r.IntN(2) == 0 { // start from a drained state reached at a fractional instant
				advance(time.Duration(r.Int64N(int64(tpt))))
			}
			c13Drain(X, rs[0].Burst)
			c13Drain(Y, rs[0].Burst)
			polls := 1 + r.IntN(6)
			var offs []time.Duration
			var at time.Duration
			m := time.Duration(1 + r.IntN(3))
			horizon := m * tpt
			for q := 0; q < polls; q++ {
				step := time.Duration(r.Int64N(int64(horizon-at)/2 + 1))
				at += step
				if at >= horizon {
					break
				}
				advance(step)
				offs = append(offs, at)
				okY, _, _ := Y.consume(1) // Y polls; X stays silent
				if okY {
					// the poll was admitted (a token had accrued): give X the same request so both stay comparable
					X.consume(1)
				}
			}
			advance(horizon - at)
			okX, _, _ := X.consume(1)
			okY, _, _ := Y.consume(1)
			c.Count("poll_twin_comparisons", 1)
			if okX != okY {
				c.Violation(level+"/rejected-polls-cost-refill", sfmt("rate %v: after draining, a source that was polled (and rejected) at offsets %v gets admitted=%v at +%v, a silent twin gets admitted=%v: rejected requests destroyed accrued refill time", rs[0], offs, okY, horizon, okX), desc)
				return
			}
		}
		if i < 2 {
			c.Sample(map[string]any{"level": level, "rates": rs, "history_len": len(hist), "available_before_flood": avail, "rejected_injected": k, "drain_twin_a": da, "drain_twin_b": db})
		}
	})
	c.Require("states_with_real_rejection", 2)
}

func c13Set(c *Ctx) {
	c13Run(c, "set", func(rs []rateSpec) c13Bucket {
		set := mkRateSet(rs)
		return setBucket{ratelimit.NewTokenBucketSet(set), set}
	})
}

// c13RefillTime: ceil(burst * period / average), computed without overflowing int64 (quota-style rates).
func c13RefillTime(x rateSpec) time.Duration {
	n := new(big.Int).Mul(big.NewInt(x.Burst), big.NewInt(int64(x.Period)))
	n.Add(n, big.NewInt(x.Average-1))
	n.Div(n, big.NewInt(x.Average))
	return time.Duration(n.Int64())
}

var c13HTTPSeq int

func c13HTTP(c *Ctx) {
	c13Run(c, "http", func(rs []rateSpec) c13Bucket {
		n := new(int)
		set := mkRateSet(rs)
		c13HTTPSeq++
		var opts []ratelimit.TokenLimiterOption
		def := set
		if c13HTTPSeq%2 == 0 {
			// the rates in force come from a rate extractor; the limiter's default set is much tighter and irrelevant
			def = mkRateSet([]rateSpec{{time.Second, 1, 1}})
			opts = append(opts, ratelimit.ExtractRates(ratelimit.RateExtractorFunc(func(*http.Request) (*ratelimit.RateSet, error) { return set, nil })))
		}
		tl, err := ratelimit.New(http.HandlerFunc(func(http.ResponseWriter, *http.Request) { *n++ }), hdrExtractor, def, opts...)
		if err != nil {
			panic(err)
		}
		return httpBucket{tl, n, "src", set}
	})
}

// c13FloodConc: rejected requests arriving concurrently from one source must still cost nothing
// (the debit-all / roll-back-all sequence has to be atomic per source).
func c13FloodConc(c *Ctx) {
	c.Cases("floodconc", c.N(80, 2000), func(i int, r *rand.Rand) {
		short := rateSpec{time.Second, int64(1 + r.IntN(3)), int64(1 + r.IntN(3))}
		twoAmounts := i%2 == 1 // half of the goroutines ask for 2 units: their advertised wait is twice as long
		if twoAmounts && short.Burst < 2 {
			short.Burst = 2
		}
		long := rateSpec{pick(r, []time.Duration{time.Minute, time.Hour}), int64(50 + r.IntN(100)), int64(50 + r.IntN(100))}
		rs := []rateSpec{short, long}
		freeze(baseTime.Add(time.Duration(r.Int64N(1e9))))
		defer unfreeze()
		mk := func() (*ratelimit.TokenLimiter, *int64) {
			var mu sync.Mutex
			n := new(int64)
			tl, err := ratelimit.New(http.HandlerFunc(func(http.ResponseWriter, *http.Request) {
				mu.Lock()
				*n++
				mu.Unlock()
			}), hdrExtractor, mkRateSet(rs))
			if err != nil {
				panic(err)
			}
			return tl, n
		}
		A, _ := mk()
		B, _ := mk()
		serve2 := func(tl *ratelimit.TokenLimiter, amt int64) (int, string) {
			req := httptest.NewRequest("GET", "http://x.test/", nil)
			req.Header.Set("X-Src", "same")
			req.Header.Set("X-Amt", strconv.FormatInt(amt, 10))
			rec := httptest.NewRecorder()
			tl.ServeHTTP(rec, req)
			return rec.Code, rec.Header().Get("X-Retry-In")
		}
		serve := func(tl *ratelimit.TokenLimiter, amt int64) int {
			code, _ := serve2(tl, amt)
			return code
		}
		tpt := time.Duration(int64(short.Period) / short.Average)
		var wrongDelay atomic.Int64
		var wrongSample sync.Map
		// exhaust the short-period bucket on both twins
		for k := int64(0); k < short.Burst; k++ {
			serve(A, 1)
			serve(B, 1)
		}
		G, per := 8, 200+r.IntN(c.N(300, 1500))
		var wg sync.WaitGroup
		var admitted sync.Map
		start := make(chan struct{})
		for g := 0; g < G; g++ {
			wg.Add(1)
			go func(g int) {
				defer wg.Done()
				<-start
				amt := int64(1)
				if twoAmounts && g%2 == 1 {
					amt = 2
				}
				want := (time.Duration(amt) * tpt).String()
				for k := 0; k < per; k++ {
					code, retry := serve2(B, amt)
					if code != http.StatusTooManyRequests {
						admitted.Store(g*100000+k, true)
					} else if retry != want {
						// the bucket is empty and the clock stands still: the wait for amt units is amt token times
						wrongDelay.Add(1)
						wrongSample.Store(amt, retry)
					}
				}
			}(g)
		}
		close(start)
		wg.Wait()
		c.Eval()
		c.Count("concurrent_rejected_requests", int64(G*per))
		bad := 0
		admitted.Range(func(_, _ any) bool { bad++; return true })
		if bad > 0 {
			c.Violation("floodconc/admitted", sfmt("rates %v: %d of %d concurrent requests were admitted although the 1s bucket was empty", rs, bad, G*per), nil)
			return
		}
		if n := wrongDelay.Load(); n > 0 {
			var ex []string
			wrongSample.Range(func(k, v any) bool { ex = append(ex, sfmt("amount %v told %v", k, v)); return true })
			c.Violation("floodconc/advertised-delay", sfmt("rates %v: empty 1s bucket at a frozen instant, %d goroutines rejected concurrently: %d of %d rejections advertised a wait that is not amount x %v (%v): a retry after that wait is not admitted", rs, G, n, G*per, tpt, ex), nil)
			return
		}
		// let the short bucket refill completely, then both twins must drain the same number of single tokens
		advance(time.Duration(short.Burst)*short.Period + time.Second)
		drain := func(tl *ratelimit.TokenLimiter) int64 {
			var k int64
			for k < long.Burst+5 && serve(tl, 1) == 200 {
				k++
				advance(short.Period/time.Duration(short.Average) + time.Millisecond) // one short-rate token per step: the long budget is what is measured
			}
			return k
		}
		ta := now()
		da := drain(A)
		_ = ta
		// B must see the same clock schedule: re-freeze is not possible, so drain B first in odd cases
		db := drain(B)
		// A drained first advanced the clock; B drains later and may only have MORE budget (refill), never less
		if db < da-int64(0) {
			c.Violation("floodconc/rejected-debited", sfmt("rates %v: after %d concurrent rejected requests the long-period budget of the flooded limiter allows %d more requests, the unflooded twin %d", rs, G*per, db, da), nil)
			return
		}
		c.Nontrivial(sfmt("floodconc/%v/%d/%d", rs, per, i))
		c.Count("floodconc_nontrivial", 1)
	})
	c.Require("floodconc_nontrivial", 2)
}

// c13Tiers: one source whose requests are limited under per-request rate plans (ExtractRates: an endpoint- or tier-specific
// average for the same period). Rejected requests under the other plan must cost nothing: a twin that receives a flood of
// them between two admissions must hand out exactly what the silent twin hands out.
func c13Tiers(c *Ctx) {
	c.Cases("tiers", c.N(400, 12000), func(i int, r *rand.Rand) {
		freeze(baseTime.Add(time.Duration(r.Int64N(1e9))))
		defer unfreeze()
		period := pick(r, []time.Duration{time.Second, 10 * time.Second, time.Minute, 50 * time.Millisecond, 20 * time.Millisecond})
		if period < time.Second {
			// a source limited over sub-second periods is remembered for "1 second" at whole-second granularity, i.e. until the
			// wall-clock second changes: the case (at most 75ms long) is kept inside one second so that nothing is forgotten
			unfreeze()
			freeze(baseTime.Add(time.Duration(r.Int64N(4e8))))
		}
		avgA := int64(2 + r.IntN(19))
		burst := avgA + int64(r.IntN(int(2*avgA)))
		avgB := 1 + r.Int64N(avgA-1) // the other plan is slower: its token time is longer
		burstB := pick(r, []int64{burst, 2 * burst})
		tauA := time.Duration(int64(period) / avgA)
		mk := func() (func(tier string, amt int64) (bool, time.Duration), *int) {
			n := new(int)
			setA := mkRateSet([]rateSpec{{period, avgA, burst}})
			setB := mkRateSet([]rateSpec{{period, avgB, burstB}})
			tl, err := ratelimit.New(http.HandlerFunc(func(http.ResponseWriter, *http.Request) { *n++ }), hdrExtractor, mkRateSet([]rateSpec{{time.Second, 1, 1}}),
				ratelimit.ExtractRates(ratelimit.RateExtractorFunc(func(req *http.Request) (*ratelimit.RateSet, error) {
					if req.Header.Get("X-Tier") == "B" {
						return setB, nil
					}
					return setA, nil
				})))
			if err != nil {
				panic(err)
			}
			return func(tier string, amt int64) (bool, time.Duration) {
				req := httptest.NewRequest("GET", "http://x.test/", nil)
				req.Header.Set("X-Src", "tenant")
				req.Header.Set("X-Tier", tier)
				req.Header.Set("X-Amt", strconv.FormatInt(amt, 10))
				rec := httptest.NewRecorder()
				before := *n
				tl.ServeHTTP(rec, req)
				if *n == before+1 {
					return true, 0
				}
				d, _ := time.ParseDuration(rec.Header().Get("X-Retry-In"))
				return false, d
			}, n
		}
		silent, _ := mk()
		flooded, _ := mk()
		desc := map[string]any{"period": period.String(), "plan_A": []int64{avgA, burst}, "plan_B": []int64{avgB, burstB}}
		// both: the whole burst at the first instant (plan A)
		for _, tw := range []func(string, int64) (bool, time.Duration){silent, flooded} {
			if ok, _ := tw("A", burst); !ok {
				c.Violation("tiers/first-burst-refused", sfmt("a fresh source asking for its whole burst %d under plan A (%d per %v) was refused", burst, avgA, period), desc)
				return
			}
		}
		// part of a token time later, the flooded twin receives k requests under plan B; nothing is available: all refused
		frac := time.Duration(1 + r.Int64N(int64(tauA)-1))
		advance(frac)
		k := pick(r, []int{1, 3, 10, 200})
		for q := 0; q < k; q++ {
			if ok, _ := flooded("B", 1); ok {
				c.Eval()
				c.Violation("tiers/admitted-from-empty", sfmt("%v after the source had used its whole burst (plan A: %d per %v, burst %d), a request under plan B (%d per %v) was admitted although not even plan A's token time %v has passed", frac, avgA, period, burst, avgB, period, tauA), desc)
				return
			}
			if q%3 == 2 && frac+time.Duration(q) < tauA-2 {
				advance(1) // the flood is spread over a few nanoseconds
				frac++
			}
		}
		// the rest of the token time (and j more) later both twins are drained under plan A
		j := int64(r.IntN(3))
		if j > burst-1 {
			j = burst - 1
		}
		advance(tauA - frac + time.Duration(j)*tauA)
		drain := func(tw func(string, int64) (bool, time.Duration)) int64 {
			var got int64
			for got <= burst+2 {
				if ok, _ := tw("A", 1); !ok {
					break
				}
				got++
			}
			return got
		}
		ds, df := drain(silent), drain(flooded)
		c.Eval()
		if ds != df {
			c.Violation("tiers/rejected-requests-cost", sfmt("plan A %d per %v (burst %d), plan B %d per %v: whole burst used, then %d requests under plan B refused %v later, then both twins drained %v after the burst: the silent twin hands out %d token(s), the flooded twin %d", avgA, period, burst, avgB, period, k, frac, tauA+time.Duration(j)*tauA, ds, df), desc)
			return
		}
		if ds >= 1 {
			c.Nontrivial(sfmt("tiers/%v/%d/%d/%d/%d/%v", period, avgA, burst, avgB, k, frac))
			c.Count("tier_floods_nontrivial", 1)
		}
	})
	c.Require("tier_floods_nontrivial", 2)
}
