package main

import (
	"bufio"
	"bytes"
	"github.com/vulcand/oxy/v2/utils"
	"io"
	"math/rand/v2"
	"net/http"
	"net/http/httptest"
	"os"
	"strings"
	"sync"
	"time"

	"github.com/vulcand/oxy/v2/buffer"
)

func init() {
	register(&Property{
		ID:    "C15",
		Level: "fault_enumeration",
		Rule: "enumerated grid over a real server: request side sizes {0, mem-1, mem, mem+1, max-1, max, max+1, 4*max} x {declared, chunked} x mem {<,=,>} max x max in {0 = unlimited, n}; response side the same size grid x write chunkings x statuses {200,204,304,500} x methods {GET,HEAD} x 'Content-Length: 0' with a body x grpc-status x handler panic after spilling x a status the real writer refuses (relay panics) x hijack after spilling x retry sequences whose earlier attempts spilled; " +
			"part inflated: the buffer driven in-process behind a body-replacing middleware (decompression style): the body is longer than the declared Content-Length (0, a small number, half, or unknown) and its true size is discovered only while reading; after the buffer's ServeHTTP has returned (signalled by a wrapper, no sleeping) the private TMPDIR of the child process is listed and must be empty; over-limit requests must get 413 without reaching the handler, over-limit responses an error status with none of the handler's (marked) bytes; non-trivial = grid point at which a temporary file was actually created or a limit was hit; distinct by grid point",
		Assumptions: []string{"TMPDIR is private to the child process (os.TempDir reads it on every call)", "the listing happens after the deferred closes of Buffer.ServeHTTP have run"},
		Parts: []Part{
			{Name: "request", Shards: 8, Fn: c15Request},
			{Name: "response", Shards: 8, Fn: c15Response},
			{Name: "inflated", Shards: 2, Fn: c15Inflated},
			{Name: "hijackrefused", Shards: 2, Fn: c15HijackRefused},
		},
	})
}

func tmpEntries(dir string) []string {
	es, _ := os.ReadDir(dir)
	var out []string
	for _, e := range es {
		out = append(out, e.Name())
	}
	return out
}

// spillWatcher notes whether a temp file existed at some point during the exchange.
type doneWrap struct {
	h    http.Handler
	done chan struct{}
}

func (d *doneWrap) ServeHTTP(w http.ResponseWriter, r *http.Request) {
	defer func() { d.done <- struct{}{} }()
	d.h.ServeHTTP(w, r)
}

func c15Request(c *Ctx) {
	dir := os.Getenv("TMPDIR")
	if dir == "" || !strings.HasPrefix(dir, c.ScratchDir) {
		c.Inconclusive("TMPDIR is not the child's private scratch directory")
		return
	}
	client := &http.Client{Transport: &http.Transport{MaxIdleConnsPerHost: 2}}
	srv := newSwapServer()
	defer srv.Close()
	type pt struct {
		mem, max int64
		size     int64
		chunked  bool
	}
	var grid []pt
	for _, mm := range [][2]int64{{100, 1000}, {1000, 1000}, {2000, 1000}, {512, 0}, {1, 40}, {4096, 70000}, {0, 3000}} {
		mem, max := mm[0], mm[1]
		effMem := mem
		if mem == 0 {
			effMem = buffer.DefaultMemBodyBytes
		}
		sizes := []int64{0, 1, effMem - 1, effMem, effMem + 1}
		if max > 0 {
			sizes = append(sizes, max-1, max, max+1, 4*max)
		} else {
			sizes = append(sizes, 3*effMem, 70000)
		}
		for _, sz := range sizes {
			if sz < 0 || sz > 4<<20 {
				continue
			}
			for _, ch := range []bool{false, true} {
				grid = append(grid, pt{mem, max, sz, ch})
			}
		}
	}
	c.Cases("grid", len(grid)*c.N(2, 12), func(i int, r *rand.Rand) {
		p := grid[i%len(grid)]
		if i >= len(grid) { // perturb sizes around the grid point in further rounds
			p.size += int64(r.IntN(5) - 2)
			if p.size < 0 {
				p.size = 0
			}
		}
		invoked := 0
		var seenLen int64 = -1
		spilled := false
		h := http.HandlerFunc(func(w http.ResponseWriter, req *http.Request) {
			invoked++
			if len(tmpEntries(dir)) > 0 {
				spilled = true
			}
			b, _ := io.ReadAll(req.Body)
			seenLen = int64(len(b))
			w.WriteHeader(200)
			_, _ = w.Write([]byte("ok"))
		})
		opts := []buffer.Option{buffer.MaxRequestBodyBytes(p.max)}
		verbose := i%2 == 1
		if verbose { // verbose mode dumps the request through a Logger that really formats
			opts = append(opts, buffer.Verbose(true), buffer.Logger(fmtLogger{}))
		}
		if p.mem > 0 || i%4 < 2 {
			// (a threshold of 0 may be given explicitly: it means "the default", like not giving the option)
			opts = append(opts, buffer.MemRequestBodyBytes(p.mem))
		}
		if i%3 == 0 { // the order in which options are given does not matter
			opts[0], opts[len(opts)-1] = opts[len(opts)-1], opts[0]
		}
		buf, err := buffer.New(h, opts...)
		if err != nil {
			c.Violation("constructor", err.Error(), nil)
			return
		}
		dw := &doneWrap{buf, make(chan struct{}, 4)}
		srv.set(dw)
		body := detBody(int(p.size), uint64(i))
		var rd io.Reader = bytes.NewReader(body)
		if p.chunked {
			rd = struct{ io.Reader }{rd}
		}
		req, _ := http.NewRequest(pick(r, []string{"POST", "PUT", "POST", "OPTIONS", "PATCH", "DELETE"}), srv.URL+"/", rd)
		ctype := pick(r, []string{"application/octet-stream", "application/x-www-form-urlencoded", ""})
		if ctype != "" {
			req.Header.Set("Content-Type", ctype)
		}
		resp, err := client.Do(req)
		desc := map[string]any{"mem": p.mem, "max": p.max, "size": p.size, "chunked": p.chunked, "verbose": verbose, "content_type": ctype}
		c.Eval()
		status := 0
		if err == nil {
			status = resp.StatusCode
			io.Copy(io.Discard, resp.Body)
			resp.Body.Close()
		}
		select {
		case <-dw.done:
		case <-time.After(60 * time.Second):
			c.Violation("hang", "Buffer.ServeHTTP did not return", desc)
			return
		}
		over := p.max > 0 && p.size > p.max
		if over {
			c.Count("over_limit_requests", 1)
			// the server may close the connection while the client is still sending: a transport error is acceptable
			// as long as the handler was not reached; a received status must be 413
			if invoked != 0 {
				c.Violation("request/over-limit-reached-handler", sfmt("request body of %d bytes (max %d, chunked=%v) reached the protected handler (saw %d bytes)", p.size, p.max, p.chunked, seenLen), desc)
				return
			}
			if err == nil && status != http.StatusRequestEntityTooLarge {
				c.Violation("request/over-limit-status", sfmt("request body of %d bytes (max %d, chunked=%v) answered %d, want 413", p.size, p.max, p.chunked, status), desc)
				return
			}
		} else {
			if err != nil || status != 200 || invoked != 1 || seenLen != p.size {
				c.Violation("request/within-limit-refused", sfmt("request body of %d bytes (max %d, mem %d, chunked=%v): err=%v status=%d handler invoked %d times and saw %d bytes", p.size, p.max, p.mem, p.chunked, err, status, invoked, seenLen), desc)
				return
			}
			// (whether a request body was spilled cannot be seen in the directory: multibuf unlinks the request-side file
			// right after creating it; only the response side keeps a named file, see c15Response)
		}
		if left := tmpEntries(dir); len(left) > 0 {
			c.Violation("tempfile/request-side", sfmt("after the exchange (size %d, mem %d, max %d, chunked=%v, status %d) the temp directory still holds %v", p.size, p.mem, p.max, p.chunked, status, left), desc)
			for _, n := range left {
				os.Remove(dir + "/" + n)
			}
			return
		}
		if over || spilled {
			c.Nontrivial(sfmt("req/%v", p))
			c.Count("request_points_nontrivial", 1)
		}
		if i < 2 {
			c.Sample(desc)
		}
	})
	c.Require("request_points_nontrivial", 2)
	c.Require("over_limit_requests", 1)
}

type c15RespPt struct {
	Mem, Max int64
	Size     int64
	Chunk    int
	Status   int
	Method   string
	Special  string // "", cl0, grpc, panic, hijack, retry, badstatus
}

func c15Response(c *Ctx) {
	dir := os.Getenv("TMPDIR")
	if dir == "" || !strings.HasPrefix(dir, c.ScratchDir) {
		c.Inconclusive("TMPDIR is not the child's private scratch directory")
		return
	}
	var grid []c15RespPt
	for _, mm := range [][2]int64{{100, 1000}, {1000, 1000}, {2000, 1000}, {512, 0}, {1, 40}, {1000, 20000}, {4096, 70000}} {
		mem, max := mm[0], mm[1]
		sizes := []int64{0, 1, mem - 1, mem, mem + 1, 5 * mem}
		if max > 0 {
			sizes = append(sizes, max-1, max, max+1, 4*max)
		} else {
			sizes = append(sizes, 50000)
		}
		for _, sz := range sizes {
			if sz < 0 {
				continue
			}
			for _, ch := range []int{0, 1, 7, 333, 70000, -1, -2} { // -1: the whole body with io.Copy from a plain reader; -2: one write larger than the maximum first, then small ones
				for _, sp := range []string{"", "", "cl0", "grpc", "panic", "hijack", "retry", "badstatus"} {
					st := 200
					meth := "GET"
					grid = append(grid, c15RespPt{mem, max, sz, ch, st, meth, sp})
				}
			}
			for _, st := range []int{204, 304, 500} {
				grid = append(grid, c15RespPt{mem, max, sz, 333, st, "GET", ""})
			}
			grid = append(grid, c15RespPt{mem, max, sz, 333, 200, "HEAD", ""})
			// retry sequences whose discarded attempts are of a kind that carries no body (HEAD; Content-Length: 0 when the
			// chunking is 7) although the handler wrote one
			grid = append(grid, c15RespPt{mem, max, sz, 333, 200, "HEAD", "retry"}, c15RespPt{mem, max, sz, 7, 200, "GET", "retry"})
		}
	}
	srv := newSwapServer()
	defer srv.Close()
	c.Cases("grid", len(grid)*c.N(1, 8), func(i int, r *rand.Rand) {
		p := grid[i%len(grid)]
		if i >= len(grid) {
			p.Size += int64(r.IntN(5) - 2)
			if p.Size < 0 {
				p.Size = 0
			}
			p.Status = pick(r, []int{200, 200, 201, 204, 304, 404, 500, 503})
			p.Method = pick(r, []string{"GET", "GET", "HEAD", "POST"})
		}
		var mu sync.Mutex
		invoked := 0
		spilled := false
		marker := []byte("ZQZQ")
		full := bytes.Repeat(marker, int(p.Size)/4+1)[:p.Size]
		writeBody := func(w io.Writer) {
			chunk := int64(p.Chunk)
			if chunk == -2 {
				// a first write that alone exceeds the maximum (refused whole), then small writes that fit but together pass
				// the memory threshold
				if p.Max > 0 {
					_, _ = w.Write(bytes.Repeat(marker, int(p.Max)/4+30))
				}
				small := int(p.Mem/2) + 1
				for k := 0; k < 4; k++ {
					_, _ = w.Write(bytes.Repeat(marker, small/4+1)[:small])
				}
				return
			}
			if chunk < 0 {
				// the way http.ServeContent, file servers and relays write (uses the writer's ReadFrom when it has one)
				_, _ = io.Copy(w, struct{ io.Reader }{bytes.NewReader(full)})
				return
			}
			if chunk == 0 {
				chunk = p.Size
			}
			for off := int64(0); off < p.Size; off += chunk {
				_, _ = w.Write(full[off:min(off+chunk, p.Size)])
			}
		}
		h := http.HandlerFunc(func(w http.ResponseWriter, req *http.Request) {
			mu.Lock()
			invoked++
			k := invoked
			mu.Unlock()
			switch p.Special {
			case "cl0":
				w.Header().Set("Content-Length", "0")
			case "grpc":
				w.Header().Set("Grpc-Status", "13")
			}
			if p.Special == "retry" && k < 3 {
				if p.Chunk == 7 {
					w.Header().Set("Content-Length", "0")
				}
				w.WriteHeader(503)
				writeBody(w)
				if len(tmpEntries(dir)) > 0 {
					mu.Lock()
					spilled = true
					mu.Unlock()
				}
				return
			}
			if p.Special == "badstatus" {
				// a status the real ResponseWriter refuses: relaying it panics in net/http after the body has been buffered
				w.WriteHeader(1000)
			} else if p.Status != 200 || p.Special == "retry" {
				w.WriteHeader(p.Status)
			}
			writeBody(w)
			if len(tmpEntries(dir)) > 0 {
				mu.Lock()
				spilled = true
				mu.Unlock()
			}
			switch p.Special {
			case "panic":
				panic(http.ErrAbortHandler)
			case "hijack":
				if hj, ok := w.(http.Hijacker); ok {
					conn, _, err := hj.Hijack()
					if err == nil {
						_, _ = conn.Write([]byte("HTTP/1.1 299 Hijacked\r\nContent-Length: 2\r\nConnection: close\r\n\r\nhj"))
						_ = conn.Close()
					}
				}
			}
		})
		opts := []buffer.Option{buffer.MaxResponseBodyBytes(p.Max), buffer.MemResponseBodyBytes(p.Mem)}
		if p.Special == "retry" {
			opts = append(opts, buffer.Retry(`ResponseCode() == 503 && Attempts() <= 2`))
		}
		buf, err := buffer.New(h, opts...)
		if err != nil {
			c.Violation("constructor", err.Error(), nil)
			return
		}
		dw := &doneWrap{buf, make(chan struct{}, 4)}
		srv.set(dw)
		// raw client so that hijacked / aborted exchanges can be read too
		conn, err := dialRetry("tcp", srv.addr())
		if err != nil {
			c.Inconclusive("dial failed: " + err.Error())
			return
		}
		_ = conn.SetDeadline(time.Now().Add(60 * time.Second))
		_, _ = conn.Write([]byte(p.Method + " /x HTTP/1.1\r\nHost: t\r\nConnection: close\r\nContent-Length: 0\r\n\r\n"))
		raw, _ := io.ReadAll(conn)
		conn.Close()
		select {
		case <-dw.done:
		case <-time.After(60 * time.Second):
			c.Violation("hang", "Buffer.ServeHTTP did not return", p)
			return
		}
		c.Eval()
		status := 0
		if len(raw) >= 12 && bytes.HasPrefix(raw, []byte("HTTP/1.1 ")) {
			for _, ch := range raw[9:12] {
				status = status*10 + int(ch-'0')
			}
		}
		over := p.Max > 0 && p.Size > p.Max
		if p.Chunk == -2 {
			over = p.Max > 0 // the first write alone exceeds the maximum
		}
		expectBodyKind := p.Method != "HEAD" && p.Status != 204 && p.Status != 304 && p.Special != "cl0" && p.Special != "grpc"
		if over && p.Special != "hijack" && p.Special != "panic" && p.Special != "badstatus" {
			c.Count("over_limit_responses", 1)
			if bytes.Contains(raw, marker) {
				c.Violation("response/over-limit-bytes-leaked", sfmt("response body of %d bytes exceeds the maximum %d but handler bytes reached the client (status %d)", p.Size, p.Max, status), p)
				return
			}
			if status < 400 {
				c.Violation("response/over-limit-status", sfmt("response body of %d bytes exceeds the maximum %d but the client got status %d", p.Size, p.Max, status), p)
				return
			}
		} else if p.Special == "" && expectBodyKind && !over && p.Chunk != -2 {
			// within the limit: status and full body must arrive (details are C07's; here only as sanity of the grid point)
			var gotBody []byte
			if resp, err := http.ReadResponse(bufio.NewReader(bytes.NewReader(raw)), nil); err == nil {
				gotBody, _ = io.ReadAll(resp.Body)
			}
			if status != p.Status || !bytes.Equal(gotBody, full) {
				c.Violation("response/within-limit-damaged", sfmt("response of %d bytes within the limit (max %d): status %d, %d body bytes received (first difference at %d)", p.Size, p.Max, status, len(gotBody), firstDiff(gotBody, full)), p)
				return
			}
		}
		if left := tmpEntries(dir); len(left) > 0 {
			kind := p.Special
			if kind == "" {
				switch {
				case over:
					kind = "over-limit"
				case !expectBodyKind:
					kind = "bodyless-kind"
				default:
					kind = "plain"
				}
			}
			c.Violation("tempfile/response-"+kind, sfmt("after the exchange %+v (status %d) the temp directory still holds %v", p, status, left), p)
			for _, n := range left {
				os.Remove(dir + "/" + n)
			}
			return
		}
		mu.Lock()
		sp := spilled
		mu.Unlock()
		if !over && p.Chunk != -2 && p.Size > p.Mem && (p.Special == "" || p.Special == "cl0" || p.Special == "grpc") {
			// a response beyond the in-memory threshold is on disk by the time the handler has written it
			c.Count("response_spill_expected_and_checked", 1)
			if !sp {
				c.Violation("spill/response-kept-in-memory", sfmt("response body of %d bytes with an in-memory threshold of %d: no temporary file existed when the handler had written it (%+v)", p.Size, p.Mem, p), p)
				return
			}
		}
		if sp || over {
			c.Nontrivial(sfmt("resp/%+v", p))
			c.Count("response_points_nontrivial", 1)
		}
		if sp {
			c.Count("response_points_that_spilled", 1)
		}
		if i < 2 {
			c.Sample(p)
		}
	})
	c.Require("response_points_nontrivial", 2)
	c.Require("response_points_that_spilled", 1)
	c.Require("over_limit_responses", 1)
}

// c15Inflated: the buffer sits behind a middleware that replaces the body (decompression, re-encoding) without
// correcting Content-Length, so the declared length understates what Body yields; the true size is discovered while
// reading, and a body over the maximum must be answered 413 without reaching the handler, leaving no temp file.
func c15Inflated(c *Ctx) {
	dir := os.Getenv("TMPDIR")
	if dir == "" || !strings.HasPrefix(dir, c.ScratchDir) {
		c.Inconclusive("TMPDIR is not the child's private scratch directory")
		return
	}
	c.Cases("inflated", c.N(300, 6000), func(i int, r *rand.Rand) {
		max := pick(r, []int64{40, 1000, 70000})
		mem := pick(r, []int64{1, 100, 2000, 0})
		size := pick(r, []int64{max + 1, max + 1 + r.Int64N(max), 4 * max, max, max - 1, max / 2})
		declared := pick(r, []int64{0, 10, size / 2, -1, max})
		if declared > size {
			declared = size
		}
		invoked := 0
		var seen int64 = -1
		h := http.HandlerFunc(func(w http.ResponseWriter, req *http.Request) {
			invoked++
			b, _ := io.ReadAll(req.Body)
			seen = int64(len(b))
			w.WriteHeader(200)
		})
		opts := []buffer.Option{buffer.MaxRequestBodyBytes(max)}
		if mem > 0 {
			opts = append(opts, buffer.MemRequestBodyBytes(mem))
		}
		buf, err := buffer.New(h, opts...)
		if err != nil {
			c.Violation("constructor", err.Error(), nil)
			return
		}
		req := httptest.NewRequest("POST", "http://front.test/upload", nil)
		req.Body = io.NopCloser(struct{ io.Reader }{bytes.NewReader(detBody(int(size), uint64(i)))})
		req.ContentLength = declared
		rec := httptest.NewRecorder()
		buf.ServeHTTP(rec, req)
		c.Eval()
		desc := map[string]any{"max": max, "mem": mem, "actual_size": size, "declared_content_length": declared}
		if size > max {
			c.Count("inflated_over_limit", 1)
			if invoked != 0 {
				c.Violation("request/over-limit-reached-handler", sfmt("body of %d bytes behind a declared Content-Length of %d (max %d): the protected handler was invoked and read %d bytes (status %d)", size, declared, max, seen, rec.Code), desc)
				return
			}
			if rec.Code != http.StatusRequestEntityTooLarge {
				c.Violation("request/over-limit-status", sfmt("body of %d bytes behind a declared Content-Length of %d (max %d) answered %d, want 413", size, declared, max, rec.Code), desc)
				return
			}
			c.Nontrivial(sfmt("inflated/%d/%d/%d/%d", max, mem, size, declared))
			c.Count("inflated_nontrivial", 1)
		} else if rec.Code != 200 || invoked != 1 {
			c.Violation("request/within-limit-refused", sfmt("body of %d bytes (declared %d, max %d): status %d, handler invoked %d times", size, declared, max, rec.Code, invoked), desc)
			return
		}
		if left := tmpEntries(dir); len(left) > 0 {
			c.Violation("tempfile/request-side", sfmt("after the in-process exchange (actual %d, declared %d, mem %d, max %d, status %d) the temp directory still holds %v", size, declared, mem, max, rec.Code, left), desc)
			for _, n := range left {
				os.Remove(dir + "/" + n)
			}
		}
	})
	c.Require("inflated_nontrivial", 2)
}

// c15HijackRefused: the buffer behind a writer that offers Hijack but refuses it (oxy's own ProxyWriter over a recorder,
// as under HTTP/2). A handler that tries to take the connection over and, refused, answers normally is held to the
// response limit like any other: over the maximum -> an error status and none of its bytes.
func c15HijackRefused(c *Ctx) {
	c.Cases("case", c.N(200, 4000), func(i int, r *rand.Rand) {
		max := int64(pick(r, []int{40, 1000, 20000}))
		mem := int64(pick(r, []int{1, 512, 4096}))
		size := pick(r, []int64{max - 1, max, max + 1, 3 * max, max / 2})
		marker := []byte("ZQZQ")
		full := bytes.Repeat(marker, int(size)/4+1)[:size]
		refused := false
		h := http.HandlerFunc(func(w http.ResponseWriter, req *http.Request) {
			if hj, ok := w.(http.Hijacker); ok {
				if conn, _, err := hj.Hijack(); err == nil {
					conn.Close()
					return
				}
				refused = true
			}
			w.Header().Set("X-Fallback", "normal-answer")
			w.WriteHeader(200)
			for off := 0; off < len(full); off += 700 {
				_, _ = w.Write(full[off:min(off+700, len(full))])
			}
		})
		buf, err := buffer.New(h, buffer.MaxResponseBodyBytes(max), buffer.MemResponseBodyBytes(mem))
		if err != nil {
			c.Violation("constructor", err.Error(), nil)
			return
		}
		rec := httptest.NewRecorder()
		buf.ServeHTTP(utils.NewProxyWriter(rec), httptest.NewRequest("GET", "http://front.test/upgrade", nil))
		c.Eval()
		desc := map[string]any{"max": max, "mem": mem, "size": size}
		if !refused {
			c.Count("hijack_not_refused", 1)
			return
		}
		if size > max {
			if rec.Code < 400 || bytes.Contains(rec.Body.Bytes(), marker) {
				c.Violation("response/over-limit-status", sfmt("handler's Hijack was refused and it answered normally with %d body bytes, maximum %d: the client side got status %d and %d body bytes (handler bytes among them: %v); an error status and none of the bytes are due", size, max, rec.Code, rec.Body.Len(), bytes.Contains(rec.Body.Bytes(), marker)), desc)
				return
			}
			c.Nontrivial(sfmt("hjref/%d/%d/%d", max, mem, size))
			c.Count("refused_hijack_over_limit", 1)
		} else if rec.Code != 200 || !bytes.Equal(rec.Body.Bytes(), full) {
			c.Violation("response/within-limit-damaged", sfmt("handler's Hijack was refused and it answered 200 with %d body bytes (maximum %d): the client side got status %d and %d body bytes", size, max, rec.Code, rec.Body.Len()), desc)
			return
		}
	})
	c.Require("refused_hijack_over_limit", 2)
}
