package main

import (
	"bytes"
	"errors"
	"fmt"
	"github.com/vulcand/oxy/v2/utils"
	"io"
	"math/rand/v2"
	"net/http"
	"net/http/httptest"
	"strings"
	"sync"
	"sync/atomic"
	"time"

	"github.com/vulcand/oxy/v2/buffer"
	"github.com/vulcand/oxy/v2/cbreaker"
	"github.com/vulcand/oxy/v2/connlimit"
	"github.com/vulcand/oxy/v2/ratelimit"
	"github.com/vulcand/oxy/v2/roundrobin"
	"github.com/vulcand/oxy/v2/stream"
	"github.com/vulcand/oxy/v2/trace"
)

func init() {
	register(&Property{
		ID:    "C20",
		Level: "exploration",
		Rule: "stacks generated as programs: depth 1-8, any order, repeats allowed, over {stream, trace, connlimit, ratelimit, breaker, roundrobin (with and without sticky cookie), rebalancer, buffer}; innermost handler scripts: status (incl. implicit, 204, 304), 0-5 headers incl. multi-valued, body 0..1.5MB in chunks, flush between chunks with a client handshake, hijack-and-write-raw; " +
			"non-intervening stacks are compared with the bare handler served by its own server (differential: status, end-to-end headers, body, exactly one invocation, flush effective unless the stack contains the buffer, hijack usable); intervening configurations are made by pre-driving through the whole stack (drain the bucket on the frozen clock, hold the only slot, trip the breaker, empty the pool, oversize body) and must yield one complete response with the documented status without invoking the handler; " +
			"flush scripts may flush the head before any body byte and wait until the client holds it; buffers in transparent stacks get retry expressions that are false for the answer and request-size limits equal to the body sent; bodies may be written with io.Copy; " +
			"non-trivial = stack of depth >= 2, or flush/hijack script, or intervening configuration; distinct by (stack program, script, mode)",
		Assumptions: []string{"real sockets; frozen library clock for the limiter/breaker state", "framing headers and sniffed Content-Type are not compared; the sticky cookie is a documented addition", "flush handshake watchdog 20s (generous; firing means the first chunk never arrived while the handler was waiting)"},
		Parts:       []Part{{Name: "stacks", Shards: 12, Fn: c20Stacks}},
	})
}

type c20Script struct {
	Kind    string      `json:"kind"` // plain | flush | hijack
	Status  int         `json:"status"`
	Headers [][2]string `json:"headers"`
	Chunks  []int       `json:"chunks"`
	Early   bool        `json:"early_hints,omitempty"` // 103 before the final status
	// flush scripts: the response head is flushed before any body byte and the handler waits until the client has it
	HeadFlush bool `json:"flush_head_before_body,omitempty"`
	// the body is written with io.Copy from a plain reader (uses the writer's ReadFrom when it has one)
	Copy bool `json:"io_copy,omitempty"`
	// recorder mode: after the first chunk the handler flushes through http.NewResponseController(w).Flush()
	RCFlush bool `json:"response_controller_flush,omitempty"`
}

// watchdog of the head-flush handshake (generous; shortened after it has fired once so that a broken tree is reported fast)
var c20HeadTimeout atomic.Int64

func init() { c20HeadTimeout.Store(int64(20 * time.Second)) }

type c20Inner struct {
	mu       sync.Mutex
	invoked  map[string]int
	script   c20Script
	gotFirst chan struct{}
	gotHead  chan struct{}
	headBad  atomic.Int64
	rcErr    atomic.Value // error text of the ResponseController flush ("" = nil)
	hold     chan struct{}
	entered  chan struct{}
	flushBad atomic.Int64
	hijackNA atomic.Int64
}

func (in *c20Inner) ServeHTTP(w http.ResponseWriter, req *http.Request) {
	id := req.Header.Get("X-Req-Id")
	in.mu.Lock()
	in.invoked[id]++
	in.mu.Unlock()
	switch req.Header.Get("X-Script") {
	case "fail502":
		w.WriteHeader(502)
		return
	case "ok":
		w.WriteHeader(200)
		return
	case "abort":
		panic(http.ErrAbortHandler)
	case "hold":
		in.entered <- struct{}{}
		<-in.hold
		w.WriteHeader(200)
		return
	}
	s := in.script
	if s.Kind == "hijackfb" {
		// try to take over the connection; when that is refused answer normally (426), as upgrade handlers do
		if hj, ok := w.(http.Hijacker); ok {
			if conn, _, err := hj.Hijack(); err == nil {
				_, _ = conn.Write([]byte("HTTP/1.1 200 OK\r\nConnection: close\r\nContent-Length: 6\r\nX-Hijacked: 1\r\n\r\nhijack"))
				_ = conn.Close()
				return
			}
		}
		w.Header().Set("X-Fallback", "1")
		w.WriteHeader(http.StatusUpgradeRequired)
		_, _ = w.Write([]byte("upgrade required"))
		return
	}
	if s.Kind == "hijack" {
		hj, ok := w.(http.Hijacker)
		if !ok {
			in.hijackNA.Add(1)
			w.WriteHeader(500)
			return
		}
		conn, _, err := hj.Hijack()
		if err != nil {
			in.hijackNA.Add(1)
			return
		}
		_, _ = conn.Write([]byte("HTTP/1.1 200 OK\r\nConnection: close\r\nContent-Length: 6\r\nX-Hijacked: 1\r\n\r\nhijack"))
		_ = conn.Close()
		return
	}
	if s.Early {
		w.Header().Set("Link", "</style.css>; rel=preload")
		w.WriteHeader(http.StatusEarlyHints)
		w.Header().Del("Link")
	}
	for _, h := range s.Headers {
		if strings.HasPrefix(h[0], "raw:") { // assigned directly: the name is not canonicalised
			w.Header()[h[0][4:]] = append(w.Header()[h[0][4:]], h[1])
			continue
		}
		w.Header().Add(h[0], h[1])
	}
	if s.Status != 0 {
		w.WriteHeader(s.Status)
	}
	if s.Kind == "flush" && s.HeadFlush {
		// "headers now, data later": Flush commits and sends the status line and headers
		if f, ok := w.(http.Flusher); ok {
			f.Flush()
			select {
			case <-in.gotHead:
			case <-time.After(time.Duration(c20HeadTimeout.Load())):
				in.headBad.Add(1)
				c20HeadTimeout.Store(int64(time.Second))
			}
		} else {
			in.headBad.Add(1)
		}
	}
	for ci, n := range s.Chunks {
		tag := []byte(sfmt("<c%d>", ci))
		if s.Copy {
			_, _ = io.Copy(w, struct{ io.Reader }{bytes.NewReader(bytes.Repeat(tag, n/len(tag)+1)[:n])})
		} else {
			_, _ = w.Write(bytes.Repeat(tag, n/len(tag)+1)[:n])
		}
		if s.RCFlush && ci == 0 {
			if err := http.NewResponseController(w).Flush(); err != nil {
				in.rcErr.Store(err.Error())
			} else {
				in.rcErr.Store("")
			}
		}
		if s.Kind == "flush" && ci == 0 {
			if f, ok := w.(http.Flusher); ok {
				f.Flush()
				select {
				case <-in.gotFirst:
				case <-time.After(20 * time.Second):
					in.flushBad.Add(1)
				}
			} else {
				in.flushBad.Add(1)
			}
		}
	}
}

type c20MW struct {
	Kind      string `json:"kind"`
	Intervene bool   `json:"intervene,omitempty"`
	// non-intervening rate limiter that starts with a tight limit which is raised in place (RateSet.Add on the set the
	// limiter holds) after its source has been seen once
	Raised bool `json:"raised,omitempty"`
	Sticky    bool   `json:"sticky,omitempty"`
	Retry     string `json:"retry,omitempty"`            // buffer: a retry expression that is false for the response the handler gives
	MaxReq    int64  `json:"max_request_body,omitempty"` // buffer: request-size limit equal to the size of the body sent (not exceeded)
	// rebalancer: two servers that the wrapped balancer already knew before they were registered with the rebalancer put in
	// front of it, and meters that are ready at once (so that the rebalancer really evaluates its servers on every request)
	PreExisting bool `json:"pre_existing_pool,omitempty"`
	// intervening breaker: which fallback answers ("" = the default 503, "redirect" = RedirectFallback with PreservePath,
	// "status" = ResponseFallback with a status and no body)
	Fallback string `json:"fallback,omitempty"`
}

type c20Built struct {
	h        http.Handler
	preDrive string // "", token, hold, trip
}

func c20Build(specs []c20MW, inner http.Handler) (http.Handler, error) {
	h := inner
	for i := len(specs) - 1; i >= 0; i-- {
		sp := specs[i]
		var err error
		switch sp.Kind {
		case "stream":
			h, err = stream.New(h)
		case "trace":
			var sink io.Writer = io.Discard
			if sp.Sticky { // (flag reused) the trace sink is broken: every write fails; the tracer must stay transparent
				sink = brokenWriter{}
			}
			h, err = trace.New(h, sink, trace.RequestHeaders("X-Req-Id"), trace.ResponseHeaders("X-App"))
		case "connlimit":
			max := int64(2) // requests are sequential: the limit is never reached
			if sp.Intervene && sp.Fallback != "nosource" {
				max = 1
			}
			var ex utils.SourceExtractor = hdrExtractor
			if sp.Intervene && sp.Fallback == "nosource" {
				ex = c20StrictExtractor
			}
			h, err = connlimit.New(h, ex, max)
		case "ratelimit":
			rs := ratelimit.NewRateSet()
			if sp.Intervene && sp.Fallback != "nosource" {
				_ = rs.Add(time.Hour, 1, 1)
			} else if sp.Raised {
				_ = rs.Add(time.Hour, 1, 1)
				c20RaisedSets = append(c20RaisedSets, rs)
			} else {
				// generous rates over periods from a second down to a millisecond (any period above 0 is legal)
				_ = rs.Add([]time.Duration{time.Second, 50 * time.Millisecond, 10 * time.Millisecond, time.Millisecond}[i%4], 100000, 100000)
			}
			var ex utils.SourceExtractor = hdrExtractor
			if sp.Intervene && sp.Fallback == "nosource" {
				ex = c20StrictExtractor
			}
			h, err = ratelimit.New(h, ex, rs)
		case "breaker":
			cond := "NetworkErrorRatio() > 2.0"
			if sp.Intervene {
				cond = "NetworkErrorRatio() > 0.5"
			}
			bopts := []cbreaker.Option{cbreaker.FallbackDuration(time.Hour), cbreaker.CheckPeriod(0)}
			switch sp.Fallback {
			case "redirect":
				fb, e := cbreaker.NewRedirectFallback(cbreaker.Redirect{URL: "http://fallback.test/base", PreservePath: true})
				if e != nil {
					return nil, e
				}
				bopts = append(bopts, cbreaker.Fallback(fb))
			case "status":
				fb, e := cbreaker.NewResponseFallback(cbreaker.Response{StatusCode: http.StatusTooManyRequests})
				if e != nil {
					return nil, e
				}
				bopts = append(bopts, cbreaker.Fallback(fb))
			}
			h, err = cbreaker.New(h, cond, bopts...)
		case "roundrobin", "rebalancer":
			var opts []roundrobin.LBOption
			if sp.Sticky && sp.Kind == "roundrobin" {
				opts = append(opts, roundrobin.EnableStickySession(roundrobin.NewStickySession("c20aff")))
			}
			rr, e := roundrobin.New(h, opts...)
			if e != nil {
				return nil, e
			}
			if sp.Kind == "rebalancer" {
				var ropts []roundrobin.RebalancerOption
				if sp.Sticky {
					ropts = append(ropts, roundrobin.RebalancerStickySession(roundrobin.NewStickySession("c20aff")))
				}
				if sp.PreExisting {
					ropts = append(ropts, roundrobin.RebalancerBackoff(time.Nanosecond), roundrobin.RebalancerMeter(func() (roundrobin.Meter, error) { return &scriptedMeter{ready: true}, nil }))
				}
				rb, e := roundrobin.NewRebalancer(rr, ropts...)
				if e != nil {
					return nil, e
				}
				if !sp.Intervene {
					if sp.PreExisting {
						for _, sfx := range []string{"a", "b"} {
							u := mustURL(sfmt("http://backend%d%s.test/", i, sfx))
							_ = rr.UpsertServer(u)
							_ = rb.UpsertServer(u)
						}
					} else {
						_ = rb.UpsertServer(mustURL(sfmt("http://backend%d.test/", i)))
					}
				}
				h = rb
			} else {
				if !sp.Intervene {
					_ = rr.UpsertServer(mustURL(sfmt("http://backend%d.test/", i)))
				}
				h = rr
			}
		case "buffer":
			opts := []buffer.Option{}
			if sp.Intervene {
				opts = append(opts, buffer.MaxRequestBodyBytes(10))
			}
			if sp.Retry != "" {
				opts = append(opts, buffer.Retry(sp.Retry))
			}
			if sp.MaxReq > 0 {
				opts = append(opts, buffer.MaxRequestBodyBytes(sp.MaxReq))
			}
			h, err = buffer.New(h, opts...)
		default:
			err = fmt.Errorf("unknown middleware %q", sp.Kind)
		}
		if err != nil {
			return nil, err
		}
	}
	return h, nil
}

// c20StrictExtractor fails for requests that do not name their tenant (an API-key style extractor): the limiter then
// answers through its error handler (500) and must not pass the request on.
var c20StrictExtractor = utils.ExtractorFunc(func(req *http.Request) (string, int64, error) {
	if req.Header.Get("X-Src") == "" {
		return "", 0, errors.New("no X-Src header: the source of this request cannot be determined")
	}
	return req.Header.Get("X-Src"), 1, nil
})

// c20RaisedSets: the rate sets of the current stack that start tight and are raised in place once the source is known.
var c20RaisedSets []*ratelimit.RateSet

var c20Kinds = []string{"stream", "trace", "connlimit", "ratelimit", "breaker", "roundrobin", "rebalancer", "buffer"}
var c20Docs = map[string]int{"ratelimit": 429, "connlimit": 429, "breaker": 503, "roundrobin": 500, "rebalancer": 500, "buffer": 413}

func c20Stacks(c *Ctx) {
	client := &http.Client{Transport: &http.Transport{MaxIdleConnsPerHost: 4}, Timeout: 90 * time.Second,
		CheckRedirect: func(*http.Request, []*http.Request) error { return http.ErrUseLastResponse }}
	srv, bare := newSwapServer(), newSwapServer()
	defer srv.Close()
	defer bare.Close()
	c.Cases("stack", c.N(1500, 40000), func(i int, r *rand.Rand) {
		depth := 1 + r.IntN(8)
		specs := make([]c20MW, depth)
		for k := range specs {
			specs[k] = c20MW{Kind: pick(r, c20Kinds), Sticky: r.IntN(4) == 0}
			specs[k].PreExisting = specs[k].Kind == "rebalancer" && r.IntN(2) == 0
		}
		mode := "transparent"
		var iv int = -1
		if r.IntN(3) == 0 {
			// exactly one middleware intervenes
			var cands []int
			for k, sp := range specs {
				if _, ok := c20Docs[sp.Kind]; ok {
					cands = append(cands, k)
				}
			}
			if len(cands) > 0 {
				iv = pick(r, cands)
				specs[iv].Intervene = true
				if specs[iv].Kind == "breaker" {
					specs[iv].Fallback = pick(r, []string{"", "", "redirect", "status"})
				}
				if (specs[iv].Kind == "ratelimit" || specs[iv].Kind == "connlimit") && r.IntN(3) == 0 {
					// the limiter intervenes because it cannot tell whose request this is (its extractor fails)
					specs[iv].Fallback = "nosource"
				}
				mode = "intervening:" + specs[iv].Kind
			}
		}
		raised := false
		if mode == "transparent" && r.IntN(3) == 0 {
			for k := range specs {
				if specs[k].Kind == "ratelimit" {
					specs[k].Raised = true
					raised = true
				}
			}
		}
		hasBuffer := false
		for _, sp := range specs {
			if sp.Kind == "buffer" {
				hasBuffer = true
			}
		}
		script := c20Script{Kind: "plain", Status: pick(r, []int{0, 0, 200, 201, 204, 304, 404, 500, 502, 503})}
		if mode == "transparent" {
			switch r.IntN(5) {
			case 0:
				script.Kind = "flush"
				script.Status = pick(r, []int{0, 200, 201})
				script.HeadFlush = r.IntN(2) == 0
			case 1:
				script.Kind = "hijack"
			}
		}
		recorderMode := false
		if mode == "transparent" && script.Kind == "plain" && r.IntN(5) == 0 {
			recorderMode = true
			if r.IntN(2) == 0 {
				script.Headers = append(script.Headers, [2]string{"raw:" + pick(r, []string{"X-API-requestID", "x-lower-case", "Sec-WebSocket-Accept"}), "v"})
			}
			if script.Status == 204 || script.Status == 304 {
				script.Status = 200 // a recorder keeps body bytes that a real server would refuse for these statuses
			}
			if r.IntN(2) == 0 {
				script.Kind = "hijackfb"
			}
		}
		if recorderMode && raised { // (recorder-mode stacks are driven by a single in-process request: nothing to raise)
			for k := range specs {
				specs[k].Raised = false
			}
			raised = false
		}
		for n := r.IntN(6); n > 0; n-- {
			script.Headers = append(script.Headers, [2]string{pick(r, []string{"X-App", "X-Multi", "Cache-Control", "Etag", "Content-Language", "Set-Cookie"}), randToken(r, 1+r.IntN(10))})
		}
		if script.Kind == "plain" && script.Status != 0 && r.IntN(6) == 0 && !recorderMode {
			script.Early = true // (a ResponseRecorder keeps the first status it is given, so no 1xx in recorder mode)
		}
		if mode == "transparent" && !raised && (script.Kind == "plain" || script.Kind == "flush") {
			// (not when a limit is raised in place: the first, pre-driving request answers 200 whatever the script's status)
			// buffers configured with a retry expression that has no reason to fire for this handler's answer
			st := script.Status
			if st == 0 {
				st = 200
			}
			for k := range specs {
				if specs[k].Kind == "buffer" && r.IntN(2) == 0 {
					exprs := []string{sfmt("ResponseCode() != %d && Attempts() <= 2", st), "ResponseCode() == 599", sfmt("ResponseCode() < %d", st), sfmt("ResponseCode() > %d && Attempts() < 4", st)}
					if st != 502 && st != 504 {
						exprs = append(exprs, "IsNetworkError() && Attempts() < 3")
					}
					specs[k].Retry = pick(r, exprs)
					c.Count("buffers_with_idle_retry_expression", 1)
				}
			}
		}
		// a request body whose size is exactly what the buffers in the stack allow (a limit reached is not a limit exceeded)
		var testBody []byte
		if mode == "transparent" && script.Kind == "plain" && !recorderMode && r.IntN(4) == 0 {
			testBody = detBody(1+r.IntN(3000), uint64(i))
			for k := range specs {
				if specs[k].Kind == "buffer" {
					specs[k].MaxReq = int64(len(testBody))
				}
			}
			c.Count("requests_with_body_at_the_limit", 1)
		}
		script.Copy = r.IntN(4) == 0
		script.RCFlush = recorderMode && script.Kind == "plain" && r.IntN(2) == 0
		explicitCT := r.IntN(3) != 0
		if explicitCT {
			script.Headers = append(script.Headers, [2]string{"Content-Type", "application/x-verif"})
		}
		for n := r.IntN(6); n > 0; n-- {
			sz := r.IntN(3000)
			if r.IntN(12) == 0 {
				sz = 200000 + r.IntN(1300000)
				if c.Quick() {
					sz = 100000 + r.IntN(200000)
				}
			}
			script.Chunks = append(script.Chunks, sz)
		}
		if script.Kind == "plain" && len(script.Chunks) > 0 && r.IntN(5) == 0 {
			script.Chunks = append(script.Chunks, 0) // the handler ends on a zero-length write (io.WriteString(w, ""))
		}
		if script.Kind == "flush" && len(script.Chunks) < 2 {
			script.Chunks = []int{100 + r.IntN(2000), 50 + r.IntN(500)}
		}
		if script.Kind == "flush" && script.Chunks[0] == 0 {
			script.Chunks[0] = 10
		}
		freeze(baseTime.Add(time.Duration(r.Int64N(1e9))))
		defer unfreeze()
		inner := &c20Inner{invoked: map[string]int{}, script: script, gotFirst: make(chan struct{}, 1), gotHead: make(chan struct{}, 1), hold: make(chan struct{}), entered: make(chan struct{}, 1)}
		c20RaisedSets = nil
		h, err := c20Build(specs, inner)
		desc := map[string]any{"stack": specs, "mode": mode, "script": script}
		if err != nil {
			c.Violation("build", "building the stack failed: "+err.Error(), desc)
			return
		}
		srv.set(h)
		var onHead func()
		do := func(id, scriptName string, body []byte, onFirst func()) (*http.Response, []byte, error) {
			var rd io.Reader
			method := "GET"
			if body != nil {
				rd = bytes.NewReader(body)
				method = "POST"
			}
			req, _ := http.NewRequest(method, srv.URL+"/s", rd)
			req.Header.Set("X-Req-Id", id)
			if !(id == "test" && iv >= 0 && specs[iv].Fallback == "nosource") {
				req.Header.Set("X-Src", "client-1")
			}
			if scriptName != "" {
				req.Header.Set("X-Script", scriptName)
			}
			resp, err := client.Do(req)
			if err != nil {
				return nil, nil, err
			}
			defer resp.Body.Close()
			if onHead != nil && id == "test" {
				onHead() // the response head has arrived
			}
			var out []byte
			if onFirst != nil {
				buf := make([]byte, 1)
				n, _ := resp.Body.Read(buf)
				out = append(out, buf[:n]...)
				onFirst()
			}
			rest, err := io.ReadAll(resp.Body)
			return resp, append(out, rest...), err
		}
		c.Eval()
		if raised {
			// the source is seen once under the tight limit (1 per hour), then the limit is raised in place: from then on the
			// limiter has no reason to intervene
			if resp, _, err := do("pre", "ok", nil, nil); err != nil || resp.StatusCode != 200 {
				c.Violation("predrive", sfmt("first request of a source under a limit of 1 per hour failed: %v (status %d)", err, func() int { if resp != nil { return resp.StatusCode }; return 0 }()), desc)
				return
			}
			for _, rs := range c20RaisedSets {
				_ = rs.Add(time.Hour, 100000, 100000)
			}
			advance(time.Minute) // (a raised limit refills at the new rate from now on: a minute is worth 1666 requests)
			c.Count("stacks_with_a_limit_raised_in_place", 1)
		}
		// history: a few requests whose handler aborts (panic(http.ErrAbortHandler)) went through the stack before
		for k := r.IntN(4); k > 0 && iv < 0; k-- {
			_, _, _ = do(sfmt("abort%d", k), "abort", nil, nil)
			c.Count("aborted_requests_in_history", 1)
		}
		if iv >= 0 {
			// pre-drive through the whole stack
			var released sync.WaitGroup
			kindForPredrive := specs[iv].Kind
			if specs[iv].Fallback == "nosource" {
				kindForPredrive = "ratelimit" // one ordinary request first (it must pass), nothing is held or drained
			}
			switch kindForPredrive {
			case "ratelimit":
				if resp, _, err := do("pre", "ok", nil, nil); err != nil || resp.StatusCode != 200 {
					c.Violation("predrive", sfmt("pre-driving request failed: %v", err), desc)
					return
				}
			case "breaker":
				if _, _, err := do("pre", "fail502", nil, nil); err != nil {
					c.Violation("predrive", sfmt("pre-driving request failed: %v", err), desc)
					return
				}
			case "connlimit":
				released.Add(1)
				go func() {
					defer released.Done()
					_, _, _ = do("pre", "hold", nil, nil)
				}()
				select {
				case <-inner.entered:
				case <-time.After(30 * time.Second):
					c.Violation("predrive", "held request never reached the handler", desc)
					return
				}
			}
			var body []byte
			if specs[iv].Kind == "buffer" {
				body = detBody(100, uint64(i))
			}
			resp, rb, err := do("test", "", body, nil)
			if specs[iv].Kind == "connlimit" && specs[iv].Fallback != "nosource" {
				close(inner.hold)
				released.Wait()
			}
			if err != nil {
				c.Violation("intervene/incomplete", sfmt("%s: the intervening response could not be read completely: %v", mode, err), desc)
				return
			}
			inner.mu.Lock()
			n := inner.invoked["test"]
			inner.mu.Unlock()
			want := c20Docs[specs[iv].Kind]
			switch specs[iv].Fallback {
			case "redirect":
				want = http.StatusFound
			case "status":
				want = http.StatusTooManyRequests
			case "nosource":
				want = http.StatusInternalServerError
				c.Count("intervening_source_extraction_failures", 1)
			}
			if n != 0 {
				c.Violation("intervene/handler-invoked", sfmt("%s: the wrapped handler was invoked %d times although %s intervened (status %d)", mode, n, specs[iv].Kind, resp.StatusCode), desc)
				return
			}
			if resp.StatusCode != want {
				c.Violation("intervene/status", sfmt("%s at position %d of %d: client saw status %d, documented status is %d (body %q)", mode, iv, depth, resp.StatusCode, want, string(rb[:min(len(rb), 60)])), desc)
				return
			}
			if specs[iv].Fallback == "redirect" {
				// every refused request is redirected to the same, configured place
				loc := resp.Header.Get("Location")
				for q := 0; q < 3; q++ {
					r2, _, err2 := do(sfmt("again%d", q), "", nil, nil)
					if err2 != nil || r2.StatusCode != http.StatusFound || r2.Header.Get("Location") != loc || !strings.HasPrefix(loc, "http://fallback.test/base") {
						got := ""
						if r2 != nil {
							got = sfmt("%d %q", r2.StatusCode, r2.Header.Get("Location"))
						}
						c.Violation("intervene/redirect-target", sfmt("%s with a redirect fallback (URL http://fallback.test/base, path preserved): the first refused request was sent to %q, refused request %d got %s (err %v)", mode, loc, q+2, got, err2), desc)
						return
					}
				}
				c.Count("redirect_fallback_checked", 1)
			}
			c.Count("intervening_"+specs[iv].Kind, 1)
			c.Nontrivial(sfmt("%v|%v", specs, mode))
			c.Count("stacks_nontrivial", 1)
			return
		}
		if recorderMode {
			// driven through an httptest.ResponseRecorder (a writer that cannot be hijacked and has no socket behind it)
			mk := func(h http.Handler) *httptest.ResponseRecorder {
				req := httptest.NewRequest("GET", "http://front.test/s", nil)
				req.Header.Set("X-Req-Id", "test")
				req.Header.Set("X-Src", "client-1")
				rec := httptest.NewRecorder()
				h.ServeHTTP(rec, req)
				return rec
			}
			got := mk(h)
			bare := &c20Inner{invoked: map[string]int{}, script: script, gotFirst: make(chan struct{}, 1), gotHead: make(chan struct{}, 1), hold: make(chan struct{}), entered: make(chan struct{}, 1)}
			want := mk(bare)
			inner.mu.Lock()
			n := inner.invoked["test"]
			inner.mu.Unlock()
			if n != 1 {
				c.Violation("transparent/invocations", sfmt("recorder: the innermost handler was invoked %d times for one request", n), desc)
				return
			}
			if got.Code != want.Code || !bytes.Equal(got.Body.Bytes(), want.Body.Bytes()) {
				key := "transparent/status"
				if got.Code == want.Code {
					key = "transparent/body"
				}
				if script.Kind == "hijackfb" {
					key = "hijack/fallback-response-lost"
				}
				c.Violation(key, sfmt("recorder: through the stack status %d with %d body bytes, the bare handler gives %d with %d", got.Code, got.Body.Len(), want.Code, want.Body.Len()), desc)
				return
			}
			if script.RCFlush && len(script.Chunks) > 0 && !hasBuffer {
				// the recorder can flush (it has Flush, not FlushError): a flush through the ResponseController must arrive
				c.Count("response_controller_flushes_checked", 1)
				if e, _ := inner.rcErr.Load().(string); e != "" || !got.Flushed {
					c.Violation("flush/response-controller", sfmt("recorder: the handler flushed with http.NewResponseController(w).Flush(): error %q, flush reached the client-side writer: %v (the stack contains no buffer)", e, got.Flushed), desc)
					return
				}
			}
			gh, bh := got.Header().Clone(), want.Header().Clone()
			gh.Del("Set-Cookie")
			bh.Del("Set-Cookie")
			if !explicitCT || script.Kind == "hijackfb" {
				gh.Del("Content-Type")
				bh.Del("Content-Type")
			}
			for k := range framingHeaders {
				gh.Del(k)
				bh.Del(k)
			}
			if ok, why := hdrEqual(gh, bh); !ok {
				c.Violation("transparent/headers", "recorder: "+why, desc)
				return
			}
			c.Count("recorder_mode_cases", 1)
			if script.Kind == "hijackfb" {
				c.Count("hijack_fallback_checked", 1)
			}
			c.Nontrivial(sfmt("rec|%v|%v", specs, script))
			c.Count("stacks_nontrivial", 1)
			return
		}
		// transparent: compare with the bare handler
		bareInner := &c20Inner{invoked: map[string]int{}, script: script, gotFirst: make(chan struct{}, 1), gotHead: make(chan struct{}, 1), hold: make(chan struct{}), entered: make(chan struct{}, 1)}
		bare.set(bareInner)
		var onFirst func()
		if script.Kind == "flush" {
			if hasBuffer {
				inner.gotFirst <- struct{}{} // waived: the buffer holds everything back by design, do not make the handler wait
				inner.gotHead <- struct{}{}
			} else {
				onFirst = func() { inner.gotFirst <- struct{}{} }
				onHead = func() { inner.gotHead <- struct{}{} }
			}
		}
		resp, body, err := do("test", "", testBody, onFirst)
		if err != nil {
			c.Violation("transparent/failed", sfmt("request through the stack failed: %v", err), desc)
			return
		}
		breq, _ := http.NewRequest("GET", bare.URL+"/s", nil)
		breq.Header.Set("X-Req-Id", "test")
		var bresp *http.Response
		var bbody []byte
		{
			if script.Kind == "flush" {
				bareInner.gotFirst <- struct{}{}
				bareInner.gotHead <- struct{}{}
			}
			bresp, err = client.Do(breq)
			if err != nil {
				c.Count("bare_errors", 1)
				return
			}
			bbody, _ = io.ReadAll(bresp.Body)
			bresp.Body.Close()
		}
		inner.mu.Lock()
		n := inner.invoked["test"]
		inner.mu.Unlock()
		if n != 1 {
			c.Violation("transparent/invocations", sfmt("the innermost handler was invoked %d times for one request", n), desc)
			return
		}
		if script.Kind == "hijack" {
			if inner.hijackNA.Load() > 0 {
				c.Violation("hijack/unavailable", "http.Hijacker was not available (or failed) inside the innermost handler", desc)
				return
			}
			if resp.Header.Get("X-Hijacked") != "1" || string(body) != "hijack" {
				c.Violation("hijack/unusable", sfmt("the raw response written on the hijacked connection did not reach the client (status %d, body %q)", resp.StatusCode, string(body[:min(len(body), 40)])), desc)
				return
			}
			c.Count("hijack_checked", 1)
		} else {
			if resp.StatusCode != bresp.StatusCode {
				c.Violation("transparent/status", sfmt("client saw status %d through the stack, the bare handler answers %d", resp.StatusCode, bresp.StatusCode), desc)
				return
			}
			if !bytes.Equal(body, bbody) {
				c.Violation("transparent/body", sfmt("body through the stack has %d bytes, the bare handler's %d; first difference at %d", len(body), len(bbody), firstDiff(body, bbody)), desc)
				return
			}
			gh, bh := resp.Header.Clone(), bresp.Header.Clone()
			for k := range framingHeaders {
				gh.Del(k)
				bh.Del(k)
			}
			if !explicitCT {
				gh.Del("Content-Type")
				bh.Del("Content-Type")
			}
			// documented addition: the sticky cookie. A cookie-less request through a sticky balancer gets one, whatever the
			// layers below it do to the response headers
			var kept []string
			affinity := 0
			for _, v := range gh.Values("Set-Cookie") {
				if !strings.HasPrefix(v, "c20aff=") {
					kept = append(kept, v)
				} else {
					affinity++
				}
			}
			stickyLayers := 0
			for _, sp := range specs {
				if sp.Sticky && (sp.Kind == "roundrobin" || sp.Kind == "rebalancer") {
					stickyLayers++
				}
			}
			if stickyLayers > 0 {
				c.Count("sticky_cookie_presence_checked", 1)
				if affinity > stickyLayers {
					c.Violation("transparent/sticky-cookie-duplicated", sfmt("the stack contains %d balancer(s) with sticky sessions, each of which adds one affinity cookie for a cookie-less request; the response carries %d (Set-Cookie seen: %q)", stickyLayers, affinity, gh.Values("Set-Cookie")), desc)
					return
				}
				if affinity == 0 {
					c.Violation("transparent/sticky-cookie-lost", sfmt("the stack contains %d balancer(s) with sticky sessions and the request carried no cookie, but the response has no affinity cookie (Set-Cookie seen: %q)", stickyLayers, gh.Values("Set-Cookie")), desc)
					return
				}
			}
			gh.Del("Set-Cookie")
			for _, v := range kept {
				gh.Add("Set-Cookie", v)
			}
			if ok, why := hdrEqual(gh, bh); !ok {
				c.Violation("transparent/headers", sfmt("headers through the stack differ from the bare handler's: %s", why), desc)
				return
			}
			if script.Kind == "flush" {
				if !hasBuffer && inner.headBad.Load() > 0 {
					c.Violation("flush/head-ineffective", "the handler flushed the response head before writing any body byte and waited: the head (status line and headers) did not reach the client (or http.Flusher was unavailable), and the stack contains no buffer", desc)
					return
				}
				if script.HeadFlush {
					c.Count("head_flush_checked", 1)
				}
				if !hasBuffer && inner.flushBad.Load() > 0 {
					c.Violation("flush/ineffective", "the first chunk did not reach the client while the handler was waiting after Flush (or http.Flusher was unavailable), and the stack contains no buffer", desc)
					return
				}
				if !hasBuffer {
					c.Count("flush_checked", 1)
				} else {
					c.Count("flush_waived_buffer", 1)
				}
			}
		}
		if depth >= 2 || script.Kind != "plain" {
			c.Nontrivial(sfmt("%v|%v", specs, script))
			c.Count("stacks_nontrivial", 1)
		}
		if i < 3 {
			c.Sample(desc)
		}
	})
	c.Require("stacks_nontrivial", 2)
}

type brokenWriter struct{}

func (brokenWriter) Write(p []byte) (int, error) { return 0, io.ErrClosedPipe }
