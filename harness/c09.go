package main

import (
	"fmt"
	"bytes"
	"encoding/json"
	"io"
	"math/rand/v2"
	"net/http"
	"net/http/httptest"
	"net/url"
	"strings"
	"sync"
	"sync/atomic"
	"time"

	"github.com/vulcand/oxy/v2/buffer"
	"github.com/vulcand/oxy/v2/cbreaker"
	"github.com/vulcand/oxy/v2/connlimit"
	"github.com/vulcand/oxy/v2/forward"
	"github.com/vulcand/oxy/v2/memmetrics"
	"github.com/vulcand/oxy/v2/ratelimit"
	"github.com/vulcand/oxy/v2/roundrobin"
	"github.com/vulcand/oxy/v2/roundrobin/stickycookie"
	"github.com/vulcand/oxy/v2/stream"
	"github.com/vulcand/oxy/v2/trace"
)

func init() {
	parts := []Part{}
	for _, w := range []struct {
		name string
		fn   func(c *Ctx, frozen bool, r *rand.Rand, rep int)
	}{
		{"w1-roundrobin", c09RoundRobin}, {"w2-rebalancer", c09Rebalancer}, {"w3-breaker", c09Breaker}, {"w4-rtmetrics", c09RTMetrics},
		{"w10-buffer-retry-forward", c09BufferRetryForward}, {"w5-ratelimit", c09RateLimit}, {"w6-connlimit", c09ConnLimit}, {"w7-tracer", c09Tracer}, {"w8-fullstack", c09FullStack}, {"w9-buffer-stream-forward", c09BufferEtc},
	} {
		w := w
		parts = append(parts, Part{Name: w.name, Race: true, Shards: 1, Fn: func(c *Ctx) {
			reps := c.N(3, 30)
			c.Cases("rep", reps, func(i int, r *rand.Rand) {
				for _, frozen := range []bool{true, false} {
					if c09Stalled.Load() {
						return
					}
					w.fn(c, frozen, r, i)
					c.Eval()
					if c09Stalled.Load() {
						c.Violation("deadlock:"+w.name, sfmt("workload %s (frozen clock: %v): no operation completed for a minute while calls were outstanding: concurrent requests and administration / inspection calls block each other forever (lock-order inversion or a lock that is never released)", w.name, frozen), nil)
						return
					}
					c.Nontrivial(sfmt("%s/frozen=%v/rep=%d", w.name, frozen, i))
					c.Sample(map[string]any{"workload": w.name, "frozen_clock": frozen, "repetition": i})
				}
			})
		}})
	}
	register(&Property{
		ID:    "C09",
		Level: "exploration",
		Rule: "nine workloads, each 8-32 goroutines behind a start barrier, few keys, thousands of operations, built with -race and run in its own child process with GORACE=halt_on_error=0 and a log file: W1 RoundRobin serve (with and without sticky cookie) || upsert/remove/re-weight/Servers/ServerWeight/NextServer; W2 Rebalancer likewise with real code meters, failing backends and scripted meters (1ms back-off); W3 breaker cycling standby/tripped/recovering with side effects; W4 RTMetrics Record || every getter || Export/Append/Reset; W5 TokenLimiter with more sources than capacity; W6 ConnLimiter with panicking handlers; W7 Tracer; W8 full stack trace->connlimit->ratelimit->breaker->rebalancer->buffer->forwarder->real backends; W9 Buffer (retries, spills), Stream and forwarder alone; W10 Buffer with retries in front of the forwarder and a backend that answers 502 before it has read a large request body (the transport is still writing the body of the failed attempt when the retry rewinds it); " +
			"each workload runs on the frozen clock (advanced by a ticker goroutine) and again on the real clock with millisecond durations; oracle = race-detector reports with an oxy frame in one of the two access stacks (de-duplicated by innermost oxy frame pair) plus a progress watchdog per workload (no operation completing for a minute = deadlock) plus exact counter totals (frozen clock) and one well-formed JSON line per traced request; non-trivial/distinct = (workload, clock mode, repetition) executed to completion",
		Assumptions: []string{"happens-before analysis covers executed paths only; the frozen clock's own mutex adds edges, which is why every workload is also run on the real clock", "Tracer is given a synchronised io.Writer (a caller-supplied non-thread-safe writer is the caller's responsibility)"},
		Parts:       parts,
	})
}

// c09Stalled is set when the goroutines of a workload stopped making progress (no operation completed for a minute of
// real time while some were outstanding): the calls block each other forever. The workload is abandoned.
var c09Stalled atomic.Bool

func runN(g, perG int, fn func(g, k int)) {
	var wg sync.WaitGroup
	var completed atomic.Int64
	start := make(chan struct{})
	for i := 0; i < g; i++ {
		wg.Add(1)
		go func(i int) {
			defer wg.Done()
			<-start
			for k := 0; k < perG; k++ {
				if c09Stalled.Load() {
					return
				}
				fn(i, k)
				completed.Add(1)
			}
		}(i)
	}
	close(start)
	done := make(chan struct{})
	go func() { wg.Wait(); close(done) }()
	last, lastAt := int64(-1), time.Now()
	for {
		select {
		case <-done:
			return
		case <-time.After(200 * time.Millisecond):
			if n := completed.Load(); n != last {
				last, lastAt = n, time.Now()
			} else if time.Since(lastAt) > time.Minute {
				c09Stalled.Store(true)
				return
			}
		}
	}
}

// withClock freezes the clock (and runs a ticker goroutine that advances it) or leaves the real clock.
func withClock(frozen bool, step time.Duration, body func()) {
	if !frozen {
		body()
		return
	}
	freeze(baseTime)
	defer unfreeze()
	var stop atomic.Bool
	var wg sync.WaitGroup
	wg.Add(1)
	go func() {
		defer wg.Done()
		for !stop.Load() {
			advance(step)
			time.Sleep(100 * time.Microsecond)
		}
	}()
	body()
	stop.Store(true)
	wg.Wait()
}

func serveOnce(h http.Handler, src string, cookie *http.Cookie) *httptest.ResponseRecorder {
	req := httptest.NewRequest("GET", "http://client.test/", nil)
	req.Header.Set("X-Src", src)
	if cookie != nil {
		req.AddCookie(cookie)
	}
	rec := httptest.NewRecorder()
	func() {
		defer func() { _ = recover() }()
		h.ServeHTTP(rec, req)
	}()
	return rec
}

func c09RoundRobin(c *Ctx, frozen bool, r *rand.Rand, rep int) {
	withClock(frozen, 50*time.Millisecond, func() {
		for _, sticky := range []bool{false, true} {
			var opts []roundrobin.LBOption
			if sticky {
				ss := roundrobin.NewStickySession("aff")
				switch rep % 3 { // every codec is shared by all requests of the balancer
				case 1:
					ss.SetCookieValue(&stickycookie.HashValue{Salt: "s"})
				case 2:
					if av, err := stickycookie.NewAESValue([]byte("0123456789abcdef"), time.Minute); err == nil {
						ss.SetCookieValue(av)
					}
				}
				opts = append(opts, roundrobin.EnableStickySession(ss))
			}
			if rep%2 == 1 {
				opts = append(opts, roundrobin.Logger(fmtLogger{}), roundrobin.Verbose(true))
			}
			rr, _ := roundrobin.New(http.HandlerFunc(func(w http.ResponseWriter, req *http.Request) { _ = req.URL.String() }), opts...)
			urls := []*url.URL{mustURL("http://a.test/"), mustURL("http://b.test/"), mustURL("http://c.test/x"), mustURL("https://d.test/")}
			_ = rr.UpsertServer(urls[0])
			_ = rr.UpsertServer(urls[1])
			ck := &http.Cookie{Name: "aff", Value: "http://a.test/"}
			runN(16, c.N(300, 1500), func(g, k int) {
				switch {
				case g < 8:
					if sticky && k%2 == 0 {
						serveOnce(rr, "s", ck)
					} else {
						serveOnce(rr, "s", nil)
					}
				case g < 10:
					u := urls[(g+k)%len(urls)]
					_ = rr.UpsertServer(u, roundrobin.Weight(1+k%4))
				case g < 12:
					_ = rr.RemoveServer(urls[(g+k)%len(urls)])
				case g < 14:
					for _, u := range rr.Servers() {
						_ = u.String()
					}
					_, _ = rr.ServerWeight(urls[k%len(urls)])
				default:
					if u, err := rr.NextServer(); err == nil {
						_ = u.String()
					}
				}
			})
			c.Count("w1_ops", int64(16*c.N(300, 1500)))
		}
	})
}

func c09Rebalancer(c *Ctx, frozen bool, r *rand.Rand, rep int) {
	withClock(frozen, time.Second, func() {
		for _, scripted := range []bool{false, true} {
			var fail atomic.Int64
			rr, _ := roundrobin.New(http.HandlerFunc(func(w http.ResponseWriter, req *http.Request) {
				if req.URL.Host == "a.test" && fail.Add(1)%3 != 0 {
					w.WriteHeader(502)
					return
				}
				w.WriteHeader(200)
			}))
			ropts := []roundrobin.RebalancerOption{roundrobin.RebalancerBackoff(time.Millisecond), roundrobin.RebalancerStickySession(roundrobin.NewStickySession("aff"))}
			if rep%2 == 1 {
				ropts = append(ropts, roundrobin.RebalancerLogger(fmtLogger{}), roundrobin.RebalancerDebug(true))
			}
			var meters []*scriptedMeter
			var mmu sync.Mutex
			if scripted {
				ropts = append(ropts, roundrobin.RebalancerMeter(func() (roundrobin.Meter, error) {
					m := &scriptedMeter{ready: true}
					mmu.Lock()
					meters = append(meters, m)
					mmu.Unlock()
					return m, nil
				}))
			}
			rb, _ := roundrobin.NewRebalancer(rr, ropts...)
			urls := []*url.URL{mustURL("http://a.test/"), mustURL("http://b.test/"), mustURL("http://c.test/"), mustURL("http://d.test/")}
			for _, u := range urls[:3] {
				_ = rb.UpsertServer(u)
			}
			ck := &http.Cookie{Name: "aff", Value: "http://b.test/"}
			runN(16, c.N(300, 1500), func(g, k int) {
				switch {
				case g < 9:
					if k%3 == 0 {
						serveOnce(rb, "s", ck)
					} else {
						serveOnce(rb, "s", nil)
					}
				case g < 11:
					_ = rb.UpsertServer(urls[(g+k)%len(urls)], roundrobin.Weight(1+k%3))
				case g < 12:
					if k%5 == 0 {
						_ = rb.RemoveServer(urls[3])
					}
				case g < 14:
					for _, u := range rb.Servers() {
						_ = u.String()
					}
					_, _ = rr.ServerWeight(urls[k%len(urls)])
				default:
					mmu.Lock()
					for i, m := range meters {
						m.set(float64((k+i)%5)/4, true)
					}
					mmu.Unlock()
				}
			})
			c.Count("w2_ops", int64(16*c.N(300, 1500)))
		}
	})
}

func c09Breaker(c *Ctx, frozen bool, r *rand.Rand, rep int) {
	withClock(frozen, 20*time.Millisecond, func() {
		var n atomic.Int64
		var phase atomic.Int64
		on, off := &countEffect{}, &countEffect{}
		// on odd repetitions the side effects are real webhooks (custom headers and a form) delivered to a local receiver,
		// one webhook object shared by both transitions: executions overlap while the breaker keeps cycling
		var onFx, offFx cbreaker.SideEffect = on, off
		if rep%2 == 1 {
			hookSrv := newTestServer(http.HandlerFunc(func(w http.ResponseWriter, req *http.Request) {
				_, _ = io.Copy(io.Discard, req.Body)
				if req.URL.Path == "/tripped" {
					on.n.Add(1)
				} else {
					off.n.Add(1)
				}
			}))
			defer hookSrv.Close()
			hdr := http.Header{"X-Hook-Token": {"secret"}, "Accept": {"*/*"}}
			form := url.Values{"state": {"changed"}, "service": {"w3"}}
			h1, e1 := cbreaker.NewWebhookSideEffect(cbreaker.Webhook{URL: hookSrv.URL + "/tripped", Method: "POST", Headers: hdr, Form: form})
			h2, e2 := cbreaker.NewWebhookSideEffect(cbreaker.Webhook{URL: hookSrv.URL + "/standby", Method: "POST", Headers: hdr, Form: form})
			if e1 != nil || e2 != nil {
				c.Violation("w3/constructor", sfmt("webhook side effects: %v %v", e1, e2), nil)
				return
			}
			onFx, offFx = h1, h2
			c.Count("w3_webhook_runs", 1)
		}
		cbOpts := []cbreaker.Option{cbreaker.FallbackDuration(5 * time.Millisecond), cbreaker.RecoveryDuration(5 * time.Millisecond), cbreaker.CheckPeriod(time.Millisecond),
			cbreaker.OnTripped(onFx), cbreaker.OnStandby(offFx), cbreaker.Logger(fmtLogger{}), cbreaker.Verbose(rep%2 == 1)}
		// every third repetition the refused requests are answered by the library's redirect fallback, which appends each
		// request's own path to its target: concurrent clients must each be sent to their own path
		const redirectTarget = "http://standby.test/maintenance"
		redirecting := rep%3 == 2
		if redirecting {
			rf, err := cbreaker.NewRedirectFallback(cbreaker.Redirect{URL: redirectTarget, PreservePath: true})
			if err != nil {
				c.Violation("w3/constructor", err.Error(), nil)
				return
			}
			cbOpts = append(cbOpts, cbreaker.Fallback(rf))
			c.Count("w3_redirect_fallback_runs", 1)
		}
		cb, err := cbreaker.New(http.HandlerFunc(func(w http.ResponseWriter, req *http.Request) {
			k := n.Add(1)
			if (k/200)%2 == 0 {
				w.WriteHeader(502)
			} else {
				w.WriteHeader(200)
			}
			phase.Store(k)
		}), "NetworkErrorRatio() > 0.5 || ResponseCodeRatio(500, 600, 0, 600) > 0.7 || LatencyAtQuantileMS(50.0) > 10000", cbOpts...)
		if err != nil {
			c.Violation("w3/constructor", err.Error(), nil)
			return
		}
		var misdirected atomic.Int64
		var misdirectedSample atomic.Value
		runN(16, c.N(400, 2500), func(g, k int) {
			if redirecting {
				path := sfmt("/client%d/req%d", g, k)
				req := httptest.NewRequest("GET", "http://client.test"+path, nil)
				rec := httptest.NewRecorder()
				func() {
					defer func() { _ = recover() }()
					cb.ServeHTTP(rec, req)
				}()
				if rec.Code == http.StatusFound {
					c.Count("w3_redirects_checked", 1)
					if loc := rec.Header().Get("Location"); loc != redirectTarget+path {
						misdirected.Add(1)
						misdirectedSample.Store(sfmt("request %s was redirected to %q", path, loc))
					}
				}
			} else {
				serveOnce(cb, "s", nil)
			}
			if !frozen && k%50 == 0 {
				time.Sleep(time.Millisecond)
			}
		})
		if misdirected.Load() > 0 {
			c.Violation("w3/redirect-misdirected", sfmt("%d refused requests answered by the breaker's redirect fallback (target %s, path preserved) were sent elsewhere, e.g. %v", misdirected.Load(), redirectTarget, misdirectedSample.Load()), nil)
		}
		c.Count("w3_ops", int64(16*c.N(400, 2500)))
		c.Count("w3_trips", on.n.Load())
		c.Count("w3_standbys", off.n.Load())
	})
}

func c09RTMetrics(c *Ctx, frozen bool, r *rand.Rand, rep int) {
	withClockNoTicker := func(body func()) {
		if frozen {
			freeze(baseTime)
			defer unfreeze()
		}
		body()
	}
	withClockNoTicker(func() {
		// every third repetition: the smallest legal windows (one histogram in the rolling window, two counter slots)
		var mopts []memmetrics.RTOption
		if rep%3 == 1 {
			mopts = append(mopts,
				memmetrics.RTHistogram(func() (*memmetrics.RollingHDRHistogram, error) {
					return memmetrics.NewRollingHDRHistogram(1, 3600000000, 2, 10*time.Second, 1)
				}),
				memmetrics.RTCounter(func() (*memmetrics.RollingCounter, error) { return memmetrics.NewCounter(2, time.Second) }))
			c.Count("w4_single_histogram_runs", 1)
		}
		m, err := memmetrics.NewRTMetrics(mopts...)
		if err != nil {
			c.Violation("w4/constructor", err.Error(), nil)
			return
		}
		other, _ := memmetrics.NewRTMetrics(mopts...)
		per := c.N(400, 3000)
		var recs, neterrs atomic.Int64
		var perCode sync.Map
		runN(16, per, func(g, k int) {
			switch {
			case g < 8:
				code := []int{200, 200, 500, 502, 504, 404}[(g+k)%6]
				m.Record(code, time.Duration(1+k%50)*time.Millisecond)
				recs.Add(1)
				if code == 502 || code == 504 {
					neterrs.Add(1)
				}
				v, _ := perCode.LoadOrStore(code, new(atomic.Int64))
				v.(*atomic.Int64).Add(1)
			case g < 10:
				_ = m.NetworkErrorRatio()
				_ = m.ResponseCodeRatio(500, 600, 200, 300)
			case g < 12:
				_ = m.StatusCodesCounts()
				_ = m.TotalCount()
				_ = m.NetworkErrorCount()
			case g < 13:
				if h, err := m.LatencyHistogram(); err == nil {
					_ = h.LatencyAtQuantile(50)
					_ = h.LatencyAtQuantile(99)
				}
			case g < 15:
				e := m.Export()
				_ = e.TotalCount()
			default:
				_ = other.Append(m)
			}
		})
		c.Count("w4_ops", int64(16*per))
		if frozen {
			// nothing ages out on the frozen clock: totals must be exact
			if got := m.TotalCount(); got != recs.Load() {
				c.Violation("w4/lost-update-total", sfmt("RTMetrics.TotalCount() = %d after %d concurrent Record calls", got, recs.Load()), nil)
			}
			if got := m.NetworkErrorCount(); got != neterrs.Load() {
				c.Violation("w4/lost-update-neterr", sfmt("RTMetrics.NetworkErrorCount() = %d after %d network-error records", got, neterrs.Load()), nil)
			}
			sc := m.StatusCodesCounts()
			perCode.Range(func(k, v any) bool {
				if sc[k.(int)] != v.(*atomic.Int64).Load() {
					c.Violation("w4/lost-update-status", sfmt("StatusCodesCounts()[%d] = %d after %d records", k, sc[k.(int)], v.(*atomic.Int64).Load()), nil)
				}
				return true
			})
			c.Count("w4_exact_total_checks", 1)
		}
		// Reset racing with everything else
		runN(8, c.N(100, 500), func(g, k int) {
			if g == 0 && k%20 == 0 {
				m.Reset()
			} else if g%2 == 0 {
				m.Record(200, time.Millisecond)
			} else {
				_ = m.NetworkErrorRatio()
				_ = m.Export()
			}
		})
	})
}

func c09RateLimit(c *Ctx, frozen bool, r *rand.Rand, rep int) {
	withClock(frozen, 300*time.Millisecond, func() {
		rs := ratelimit.NewRateSet()
		_ = rs.Add(time.Second, 5, 10)
		_ = rs.Add(time.Minute, 100, 100)
		var admitted atomic.Int64
		tl, err := ratelimit.New(http.HandlerFunc(func(w http.ResponseWriter, req *http.Request) { admitted.Add(1) }), hdrExtractor, rs, ratelimit.Capacity(4), ratelimit.Logger(fmtLogger{}),
			ratelimit.ExtractRates(ratelimit.RateExtractorFunc(func(req *http.Request) (*ratelimit.RateSet, error) {
				if req.Header.Get("X-Src") == "s1" {
					o := ratelimit.NewRateSet()
					_ = o.Add(time.Second, 50, 50)
					return o, nil
				}
				return ratelimit.NewRateSet(), nil
			})))
		if err != nil {
			return
		}
		per := c.N(400, 3000)
		runN(16, per, func(g, k int) {
			serveOnce(tl, sfmt("s%d", (g+k)%7), nil)
		})
		c.Count("w5_ops", int64(16*per))
	})
}

func c09ConnLimit(c *Ctx, frozen bool, r *rand.Rand, rep int) {
	if frozen {
		return // the connection limiter does not use the clock: one run is enough
	}
	hold := make(chan struct{})
	var held sync.WaitGroup
	cl, _ := connlimit.New(http.HandlerFunc(func(w http.ResponseWriter, req *http.Request) {
		if req.Header.Get("X-Panic") != "" {
			panic(http.ErrAbortHandler)
		}
		if req.Header.Get("X-Hold") != "" {
			held.Done()
			<-hold
		}
	}), hdrExtractor, 3, connlimit.Logger(fmtLogger{}), connlimit.Verbose(rep%2 == 1))
	per := c.N(500, 4000)
	runN(16, per, func(g, k int) {
		req := httptest.NewRequest("GET", "http://c.test/", nil)
		req.Header.Set("X-Src", sfmt("s%d", (g+k)%3))
		if k%11 == 0 {
			req.Header.Set("X-Panic", "1")
		}
		func() {
			defer func() { _ = recover() }()
			cl.ServeHTTP(httptest.NewRecorder(), req)
		}()
	})
	c.Count("w6_ops", int64(16*per))
	// no counter update was lost: with everything finished every source has exactly its 3 slots again
	for s := 0; s < 3; s++ {
		src := sfmt("s%d", s)
		var wg sync.WaitGroup
		for k := 0; k < 3; k++ {
			held.Add(1)
			wg.Add(1)
			go func() {
				defer wg.Done()
				req := httptest.NewRequest("GET", "http://c.test/", nil)
				req.Header.Set("X-Src", src)
				req.Header.Set("X-Hold", "1")
				rec := httptest.NewRecorder()
				cl.ServeHTTP(rec, req)
				if rec.Code == http.StatusTooManyRequests {
					held.Done() // rejected: never reached the handler
					c.Violation("w6/lost-update", sfmt("after %d concurrent requests had all finished, source %s could not get its full 3 slots back (a request below the limit was rejected)", 16*per, src), nil)
				}
			}()
		}
		held.Wait()
		req := httptest.NewRequest("GET", "http://c.test/", nil)
		req.Header.Set("X-Src", src)
		rec := httptest.NewRecorder()
		cl.ServeHTTP(rec, req)
		if rec.Code != http.StatusTooManyRequests {
			c.Violation("w6/lost-update", sfmt("after %d concurrent requests had all finished, source %s holds 3 requests in flight (limit 3) and a fourth was admitted (status %d): the per-source count has drifted", 16*per, src, rec.Code), nil)
		}
		close(hold)
		wg.Wait()
		hold = make(chan struct{})
	}
}

type syncWriter struct {
	mu sync.Mutex
	b  bytes.Buffer
}

func (s *syncWriter) Write(p []byte) (int, error) {
	s.mu.Lock()
	defer s.mu.Unlock()
	return s.b.Write(p)
}

func c09Tracer(c *Ctx, frozen bool, r *rand.Rand, rep int) {
	withClock(frozen, 10*time.Millisecond, func() {
		out := &syncWriter{}
		tr, err := trace.New(http.HandlerFunc(func(w http.ResponseWriter, req *http.Request) {
			w.Header().Set("X-App", "v")
			w.WriteHeader(200 + len(req.Header.Get("X-Src"))%3)
			_, _ = w.Write([]byte("hello"))
		}), out, trace.RequestHeaders("X-Src"), trace.ResponseHeaders("X-App"))
		if err != nil {
			return
		}
		per := c.N(300, 2000)
		runN(16, per, func(g, k int) { serveOnce(tr, sfmt("s%d", g), nil) })
		c.Count("w7_ops", int64(16*per))
		out.mu.Lock()
		lines := strings.Split(strings.TrimRight(out.b.String(), "\n"), "\n")
		out.mu.Unlock()
		bad := 0
		for _, l := range lines {
			var rec trace.Record
			if json.Unmarshal([]byte(l), &rec) != nil || rec.Request.Method != "GET" || rec.Response.Code < 200 {
				bad++
			}
		}
		if len(lines) != 16*per || bad > 0 {
			c.Violation("w7/trace-lines", sfmt("tracer emitted %d lines (%d malformed) for %d requests", len(lines), bad, 16*per), nil)
		}
	})
}

func c09FullStack(c *Ctx, frozen bool, r *rand.Rand, rep int) {
	back1 := newTestServer(http.HandlerFunc(func(w http.ResponseWriter, req *http.Request) { _, _ = w.Write([]byte("b1")) }))
	defer back1.Close()
	var n2 atomic.Int64
	back2 := newTestServer(http.HandlerFunc(func(w http.ResponseWriter, req *http.Request) {
		if n2.Add(1)%2 == 0 {
			w.WriteHeader(502)
			return
		}
		_, _ = w.Write(bytes.Repeat([]byte("x"), 5000))
	}))
	defer back2.Close()
	withClock(frozen, 200*time.Millisecond, func() {
		fwd := forward.New(false)
		buf, _ := buffer.New(fwd, buffer.Retry(`IsNetworkError() && Attempts() <= 2`), buffer.MemResponseBodyBytes(1000), buffer.Logger(fmtLogger{}), buffer.Verbose(rep%2 == 1))
		rr, _ := roundrobin.New(buf)
		rb, _ := roundrobin.NewRebalancer(rr, roundrobin.RebalancerBackoff(time.Millisecond), roundrobin.RebalancerLogger(fmtLogger{}), roundrobin.RebalancerDebug(rep%2 == 1))
		_ = rb.UpsertServer(mustURL(back1.URL))
		_ = rb.UpsertServer(mustURL(back2.URL))
		cb, _ := cbreaker.New(rb, "NetworkErrorRatio() > 0.9", cbreaker.FallbackDuration(2*time.Millisecond), cbreaker.RecoveryDuration(2*time.Millisecond), cbreaker.CheckPeriod(time.Millisecond), cbreaker.Logger(fmtLogger{}))
		rs := ratelimit.NewRateSet()
		_ = rs.Add(time.Second, 200, 400)
		tl, _ := ratelimit.New(cb, hdrExtractor, rs)
		cl, _ := connlimit.New(tl, hdrExtractor, 6)
		out := &syncWriter{}
		tr, _ := trace.New(cl, out)
		front := newTestServer(tr)
		defer front.Close()
		client := &http.Client{Transport: &http.Transport{MaxIdleConnsPerHost: 16}, Timeout: 60 * time.Second}
		per := c.N(40, 250)
		var done atomic.Int64
		var admin sync.WaitGroup
		var stop atomic.Bool
		admin.Add(1)
		go func() {
			defer admin.Done()
			for !stop.Load() {
				_ = rb.UpsertServer(mustURL(back2.URL), roundrobin.Weight(1+int(done.Load())%3))
				_ = rb.Servers()
				time.Sleep(200 * time.Microsecond)
			}
		}()
		runN(12, per, func(g, k int) {
			req, _ := http.NewRequest("POST", front.URL+"/p?x=1", bytes.NewReader(detBody(200+k, uint64(g))))
			req.Header.Set("X-Src", sfmt("s%d", g%4))
			resp, err := client.Do(req)
			if err == nil {
				_, _ = io.Copy(io.Discard, resp.Body)
				resp.Body.Close()
			}
			done.Add(1)
		})
		stop.Store(true)
		admin.Wait()
		c.Count("w8_requests", int64(12*per))
	})
}

func c09BufferEtc(c *Ctx, frozen bool, r *rand.Rand, rep int) {
	if frozen {
		return // none of these uses the clock
	}
	var n atomic.Int64
	h := http.HandlerFunc(func(w http.ResponseWriter, req *http.Request) {
		b, _ := io.ReadAll(req.Body)
		if n.Add(1)%3 == 0 {
			w.WriteHeader(503)
			return
		}
		w.Header().Set("X-Len", sfmt("%d", len(b)))
		_, _ = w.Write(bytes.Repeat([]byte("y"), 3000))
	})
	buf, _ := buffer.New(h, buffer.Retry(`ResponseCode() == 503 && Attempts() <= 3`), buffer.MemRequestBodyBytes(512), buffer.MemResponseBodyBytes(512), buffer.MaxResponseBodyBytes(100000))
	st, _ := stream.New(h)
	back := newTestServer(h)
	defer back.Close()
	fwd := forward.New(true)
	sl := forward.NewStateListener(fwd, func(*url.URL, int) {})
	target := mustURL(back.URL)
	per := c.N(200, 1200)
	runN(12, per, func(g, k int) {
		req := httptest.NewRequest("POST", "http://front.test/p", bytes.NewReader(detBody(100+(k%5)*400, uint64(g))))
		switch g % 3 {
		case 0:
			buf.ServeHTTP(httptest.NewRecorder(), req)
		case 1:
			st.ServeHTTP(httptest.NewRecorder(), req)
		default:
			req.URL = &url.URL{Scheme: target.Scheme, Host: target.Host}
			req.RequestURI = "/p"
			sl.ServeHTTP(httptest.NewRecorder(), req)
		}
	})
	c.Count("w9_ops", int64(12*per))
}

// fmtLogger is a user-supplied Logger that really formats its arguments (the default NoopLogger never does), so
// every String() method reachable from a log call is exercised under the race detector.
type fmtLogger struct{}

func (fmtLogger) Debug(m string, a ...any) { fmt.Fprintf(io.Discard, m, a...) }
func (fmtLogger) Info(m string, a ...any)  { fmt.Fprintf(io.Discard, m, a...) }
func (fmtLogger) Warn(m string, a ...any)  { fmt.Fprintf(io.Discard, m, a...) }
func (fmtLogger) Error(m string, a ...any) { fmt.Fprintf(io.Discard, m, a...) }

// c09BufferRetryForward: the buffer retries through the real forwarder; the backend answers 502 at once, without
// reading the (large) request body, so net/http's transport may still be sending the body of the failed attempt
// from its own goroutine when the buffer rewinds it for the next attempt.
func c09BufferRetryForward(c *Ctx, frozen bool, r *rand.Rand, rep int) {
	if frozen {
		return
	}
	var n atomic.Int64
	back := newTestServer(http.HandlerFunc(func(w http.ResponseWriter, req *http.Request) {
		if n.Add(1)%2 == 1 {
			w.WriteHeader(502) // early answer: the body is not read
			return
		}
		b, _ := io.ReadAll(req.Body)
		w.Header().Set("X-Len", sfmt("%d", len(b)))
		w.WriteHeader(200)
	}))
	defer back.Close()
	fwd := forward.New(false)
	fwd.Transport = &http.Transport{MaxIdleConnsPerHost: 32}
	buf, _ := buffer.New(fwd, buffer.Retry(`IsNetworkError() && Attempts() <= 4`), buffer.MemRequestBodyBytes(8<<20))
	target := mustURL(back.URL)
	per := c.N(10, 120)
	var wrong atomic.Int64
	runN(8, per, func(g, k int) {
		size := 200000 + (k%5)*150000
		req := httptest.NewRequest("POST", "http://front.test/upload", bytes.NewReader(detBody(size, uint64(g))))
		req.URL = &url.URL{Scheme: target.Scheme, Host: target.Host, Path: "/upload"}
		req.RequestURI = "/upload"
		rec := httptest.NewRecorder()
		buf.ServeHTTP(rec, req)
		if rec.Code == 200 && rec.Header().Get("X-Len") != sfmt("%d", size) {
			wrong.Add(1)
		}
	})
	c.Count("w10_requests", int64(8*per))
	if wrong.Load() > 0 {
		c.Violation("w10/retried-body-damaged", sfmt("%d retried requests reached the backend with a body of the wrong length", wrong.Load()), nil)
	}
}
