package main

import (
	"bytes"
	"fmt"
	"io"
	"math/rand/v2"
	"net"
	"net/http"
	"sort"
	"strings"
	"sync"
	"time"

	"github.com/vulcand/oxy/v2/buffer"
	"github.com/vulcand/oxy/v2/utils"
	"net/http/httptest"
)

func init() {
	register(&Property{
		ID:    "C07",
		Level: "exploration",
		Rule: "retry expressions generated as ASTs (&&, ||, parentheses, Attempts()/ResponseCode() with all six comparisons against int literals, RequestMethod() ==/!= string, IsNetworkError()), rendered to text for buffer.Retry and evaluated by the harness with standard semantics to predict the number of handler invocations (cap: an attempt <= 10 may be retried, at most 11 invocations); " +
			"handler scripts per attempt: status in {implicit,200,201,204,304,404,500,502,503,504}, 0-5 headers incl. multi-valued and attempt-specific ones, body in 0-6 chunks of 0-100kB tagged with the attempt number; methods GET/POST/HEAD/PUT; the client-visible response over a real socket is compared with what a bare server running the final attempt's script returns (differential, modulo framing headers); " +
			"attempt scripts may send 103 before the final status and may write chunks with io.Copy from a plain reader; a quarter of the handlers rewrite r.Method in place; a sixth of the cases run behind ProxyWriter over a recorder with a refused hijack first; " +
			"non-trivial = >= 2 invocations, or implicit status, or empty body; distinct by (expression, attempt scripts, method)",
		Assumptions: []string{"real sockets; responses read with net/http's client", "framing headers (Content-Length, Transfer-Encoding, Date, Connection) are not compared"},
		Parts:       []Part{{Name: "retry", Shards: 12, Fn: c07Retry}},
	})
}

// ---- retry expression AST ----

type rexNode struct {
	Kind string // and | or | cmp
	L, R *rexNode
	Fn   string // attempts | code | method | neterr
	Op   string
	ILit int
	SLit string
}

func (n *rexNode) String() string {
	switch n.Kind {
	case "and":
		return "(" + n.L.String() + " && " + n.R.String() + ")"
	case "or":
		return "(" + n.L.String() + " || " + n.R.String() + ")"
	}
	switch n.Fn {
	case "attempts":
		return fmt.Sprintf("Attempts() %s %d", n.Op, n.ILit)
	case "code":
		return fmt.Sprintf("ResponseCode() %s %d", n.Op, n.ILit)
	case "method":
		return fmt.Sprintf("RequestMethod() %s %q", n.Op, n.SLit)
	}
	return "IsNetworkError()"
}

func (n *rexNode) eval(attempt, code int, method string) bool {
	switch n.Kind {
	case "and":
		return n.L.eval(attempt, code, method) && n.R.eval(attempt, code, method)
	case "or":
		return n.L.eval(attempt, code, method) || n.R.eval(attempt, code, method)
	}
	switch n.Fn {
	case "attempts":
		return cmpI(int64(attempt), n.Op, int64(n.ILit))
	case "code":
		return cmpI(int64(code), n.Op, int64(n.ILit))
	case "method":
		if n.Op == "==" {
			return method == n.SLit
		}
		return method != n.SLit
	}
	return code == 502 || code == 504
}

func genRex(r *rand.Rand, depth int) *rexNode {
	if depth > 0 && r.IntN(2) == 0 {
		k := "and"
		if r.IntN(3) == 0 {
			k = "or"
		}
		return &rexNode{Kind: k, L: genRex(r, depth-1), R: genRex(r, depth-1)}
	}
	ops := []string{"<", "<=", ">", ">=", "==", "!="}
	switch r.IntN(5) {
	case 0, 1:
		return &rexNode{Kind: "cmp", Fn: "attempts", Op: pick(r, []string{"<", "<=", "<=", "<", "!=", "==", ">", ">="}), ILit: pick(r, []int{0, 1, 2, 3, 4, 9, 10, 11, 12, 100})}
	case 2:
		return &rexNode{Kind: "cmp", Fn: "code", Op: pick(r, ops), ILit: pick(r, []int{0, 200, 204, 500, 502, 503, 504, 499, 501})}
	case 3:
		return &rexNode{Kind: "cmp", Fn: "method", Op: pick(r, []string{"==", "!="}), SLit: pick(r, []string{"GET", "POST", "HEAD", "PUT", "get"})}
	}
	return &rexNode{Kind: "cmp", Fn: "neterr"}
}

// ---- handler scripts ----

type c07Script struct {
	Status  int         `json:"status"` // 0 = implicit
	Headers [][2]string `json:"headers"`
	Chunks  []int       `json:"chunks"`
	Flush   bool        `json:"flush"`
	Early   bool        `json:"early_hints,omitempty"` // 103 Early Hints before the final status
	Copy    bool        `json:"io_copy,omitempty"`     // body written with io.Copy from a plain reader (no WriteTo)
	DeclLen bool        `json:"declares_length,omitempty"` // the handler announces its entity length itself (Content-Length), as file servers do, also for HEAD and 304
}

func genC07Script(r *rand.Rand, attempt int) c07Script {
	s := c07Script{Status: pick(r, []int{0, 0, 200, 201, 204, 304, 404, 500, 502, 503, 504, 502, 503})}
	nh := r.IntN(6)
	for k := 0; k < nh; k++ {
		name := pick(r, []string{"X-App", "X-Multi", "Cache-Control", "Set-Cookie", "X-Trace", "Content-Language"})
		s.Headers = append(s.Headers, [2]string{name, sfmt("v%d-a%d-%s", k, attempt, randToken(r, r.IntN(8)))})
	}
	s.Headers = append(s.Headers, [2]string{sfmt("X-Only-Attempt-%d", attempt), "1"}, [2]string{"X-Attempt", fmt.Sprint(attempt)})
	if r.IntN(3) != 0 {
		s.Headers = append(s.Headers, [2]string{"Content-Type", pick(r, []string{"text/plain", "application/x-verif", "text/plain; charset=utf-8"})})
	}
	for k := r.IntN(7); k > 0; k-- {
		n := r.IntN(2000)
		switch r.IntN(8) {
		case 0:
			n = 0
		case 1:
			n = r.IntN(100 << 10)
		}
		s.Chunks = append(s.Chunks, n)
	}
	s.Early = r.IntN(6) == 0
	s.Copy = r.IntN(4) == 0
	s.DeclLen = r.IntN(4) == 0
	return s
}

func (s c07Script) serve(w http.ResponseWriter, attempt int) {
	for _, h := range s.Headers {
		if strings.HasPrefix(h[0], "raw:") { // assigned straight into the map: the name is not canonicalised
			w.Header()[h[0][4:]] = append(w.Header()[h[0][4:]], h[1])
			continue
		}
		w.Header().Add(h[0], h[1])
	}
	if s.DeclLen {
		total := 0
		for _, n := range s.Chunks {
			total += n
		}
		w.Header().Set("Content-Length", fmt.Sprint(total))
	}
	if s.Early && s.Status != 0 {
		w.Header().Set("Link", "</style.css>; rel=preload")
		w.WriteHeader(http.StatusEarlyHints)
		w.Header().Del("Link")
	}
	if s.Status != 0 {
		w.WriteHeader(s.Status)
	}
	for ci, n := range s.Chunks {
		tag := []byte(sfmt("[a%d.c%d]", attempt, ci))
		chunk := bytes.Repeat(tag, n/len(tag)+1)[:n]
		if s.Copy {
			// the way http.ServeContent, file servers and relays write: io.Copy (uses the writer's ReadFrom when it has one)
			_, _ = io.Copy(w, struct{ io.Reader }{bytes.NewReader(chunk)})
		} else {
			_, _ = w.Write(chunk)
		}
	}
}

type c07Resp struct {
	status int
	hdr    http.Header
	body   []byte
	err    error
	cl     string // the Content-Length header as received ("" = none)
}

var framingHeaders = map[string]bool{"Content-Length": true, "Transfer-Encoding": true, "Date": true, "Connection": true}

func doRaw(client *http.Client, method, url string, body []byte) c07Resp {
	var rd io.Reader
	if body != nil {
		rd = bytes.NewReader(body)
	}
	req, _ := http.NewRequest(method, url, rd)
	resp, err := client.Do(req)
	if err != nil {
		return c07Resp{err: err}
	}
	defer resp.Body.Close()
	b, err := io.ReadAll(resp.Body)
	h := resp.Header.Clone()
	cl := strings.Join(h.Values("Content-Length"), ",")
	for k := range framingHeaders {
		h.Del(k)
	}
	return c07Resp{resp.StatusCode, h, b, err, cl}
}

func c07Retry(c *Ctx) {
	client := &http.Client{Transport: &http.Transport{MaxIdleConnsPerHost: 4, ResponseHeaderTimeout: 60 * time.Second}}
	srv, bare := newSwapServer(), newSwapServer()
	defer srv.Close()
	defer bare.Close()
	c.Cases("case", c.N(1500, 40000), func(i int, r *rand.Rand) {
		var rex *rexNode
		withRetry := r.IntN(8) != 0
		if withRetry {
			rex = genRex(r, 2)
			if r.IntN(3) == 0 { // classic shapes
				rex = &rexNode{Kind: "and", L: &rexNode{Kind: "cmp", Fn: pick(r, []string{"neterr", "neterr", "code"}), Op: ">=", ILit: 500}, R: &rexNode{Kind: "cmp", Fn: "attempts", Op: "<=", ILit: pick(r, []int{1, 2, 3, 20})}}
			}
		}
		method := pick(r, []string{"GET", "POST", "HEAD", "PUT", "GET"})
		scripts := make([]c07Script, 12)
		for k := range scripts {
			scripts[k] = genC07Script(r, k+1)
		}
		if i == 0 { // the package documentation's own example: Write without WriteHeader
			rex, withRetry, method = nil, false, "GET"
			scripts[0] = c07Script{Status: 0, Chunks: []int{5}}
		}
		if i == 1 { // status only, no body
			rex, withRetry, method = nil, false, "GET"
			scripts[0] = c07Script{Status: 200}
		}
		recMode := i%6 == 5 && method != "HEAD"
		if recMode {
			for k := range scripts {
				if scripts[k].Status == 204 || scripts[k].Status == 304 {
					scripts[k].Status = 200 // a recorder keeps body bytes a real server would refuse
				}
				scripts[k].Early = false // (a ResponseRecorder keeps the first status it is given)
				if r.IntN(2) == 0 { // header names written straight into the map reach the client's writer as written
					scripts[k].Headers = append(scripts[k].Headers, [2]string{"raw:" + pick(r, []string{"x-trace-id", "X-API-requestID", "SOAPAction"}), sfmt("a%d", k+1)})
				}
			}
		}
		// model: number of invocations and which attempt is final
		code := func(s c07Script) int {
			if s.Status == 0 {
				return 200
			}
			return s.Status
		}
		final := 1
		if withRetry {
			for final <= 10 && rex.eval(final, code(scripts[final-1]), method) {
				final++
			}
		}
		// a response-size limit: the first attempt one of whose writes does not fit ends the exchange with the error
		// handler's answer (one response, none of the attempts' bytes), whatever the retry expression says
		var maxResp int64
		overAt := 0
		if i%8 == 7 && !recMode {
			maxResp = 1 + r.Int64N(6000)
			for k := 1; k <= final && overAt == 0; k++ {
				var acc int64
				for _, n := range scripts[k-1].Chunks {
					if acc+int64(n) > maxResp {
						overAt = k
						break
					}
					acc += int64(n)
				}
			}
			c.Count("cases_with_response_limit", 1)
		}
		var mu sync.Mutex
		invoked := 0
		overrideMethod := ""
		if i%4 == 1 {
			overrideMethod = pick(r, []string{"GET", "POST", "PUT", "DELETE", "PATCH"})
			c.Count("cases_with_method_rewriting_handler", 1)
		}
		h := http.HandlerFunc(func(w http.ResponseWriter, req *http.Request) {
			mu.Lock()
			invoked++
			k := invoked
			mu.Unlock()
			if k > 12 {
				w.WriteHeader(599)
				return
			}
			if overrideMethod != "" {
				// a method-override style handler: rewrites the request it was handed (its own copy) in place
				req.Method = overrideMethod
			}
			if recMode {
				// an upgrade-style handler: tries to take over the connection and, when that is refused, answers normally
				if hj, ok := w.(http.Hijacker); ok {
					if conn, _, err := hj.Hijack(); err == nil {
						conn.Close()
						return
					}
				}
			}
			scripts[k-1].serve(w, k)
		})
		var opts []buffer.Option
		exprText := ""
		if withRetry {
			exprText = rex.String()
			opts = append(opts, buffer.Retry(exprText))
		}
		if r.IntN(3) == 0 {
			opts = append(opts, buffer.MemResponseBodyBytes(int64(1+r.IntN(4096))))
		}
		if maxResp > 0 {
			opts = append(opts, buffer.MaxResponseBodyBytes(maxResp))
		}
		buf, err := buffer.New(h, opts...)
		desc := map[string]any{"retry": exprText, "method": method, "predicted_invocations": final, "final_script": scripts[final-1]}
		if err != nil {
			c.Violation("expression/rejected", sfmt("buffer.Retry rejected the generated expression %q: %v", exprText, err), desc)
			return
		}
		if recMode {
			// driven through a ResponseRecorder behind oxy's own ProxyWriter: a writer that offers Hijack but must refuse it
			var rb io.Reader
			if method == "POST" || method == "PUT" {
				rb = bytes.NewReader(detBody(r.IntN(3000), uint64(i)))
			}
			rec := httptest.NewRecorder()
			buf.ServeHTTP(utils.NewProxyWriter(rec), httptest.NewRequest(method, "http://front.test/r", rb))
			want := httptest.NewRecorder()
			scripts[final-1].serve(want, final)
			c.Eval()
			mu.Lock()
			n := invoked
			mu.Unlock()
			c.Count("recorder_hijack_fallback_cases", 1)
			if n != final {
				c.Violation("invocations/count", sfmt("recorder: retry %q: handler invoked %d times, predicted %d", exprText, n, final), desc)
				return
			}
			if rec.Code != want.Code || !bytes.Equal(rec.Body.Bytes(), want.Body.Bytes()) {
				c.Violation("response/lost-after-refused-hijack", sfmt("the handler's Hijack was refused and it answered %d with %d body bytes; the client side got %d with %d bytes", want.Code, want.Body.Len(), rec.Code, rec.Body.Len()), desc)
				return
			}
			gh, wh := rec.Header().Clone(), want.Header().Clone()
			gh.Del("Content-Type")
			wh.Del("Content-Type")
			if ok, why := hdrEqual(gh, wh); !ok {
				c.Violation("response/headers", "recorder: "+why, desc)
				return
			}
			c.Nontrivial(sfmt("rec/%s/%s/%d/%v", exprText, method, final, scripts[final-1]))
			return
		}
		srv.set(buf)
		bare.set(http.HandlerFunc(func(w http.ResponseWriter, req *http.Request) { scripts[final-1].serve(w, final) }))
		var reqBody []byte
		if method == "POST" || method == "PUT" {
			reqBody = detBody(r.IntN(3000), uint64(i))
		}
		got := doRaw(client, method, srv.URL+"/r", reqBody)
		want := doRaw(client, method, bare.URL+"/r", reqBody)
		c.Eval()
		mu.Lock()
		n := invoked
		mu.Unlock()
		c.Count("handler_invocations", int64(n))
		if want.err != nil {
			c.Count("bare_server_errors", 1)
			return
		}
		if got.err != nil {
			key := "response/dropped"
			if scripts[final-1].Status == 0 {
				key = "response/implicit-status"
			}
			c.Violation(key, sfmt("the client got no usable response (%v); the bare handler answers %d with %d body bytes", got.err, want.status, len(want.body)), desc)
			return
		}
		if n > 11 {
			c.Violation("invocations/over-11", sfmt("handler invoked %d times", n), desc)
			return
		}
		if overAt > 0 {
			c.Count("responses_over_the_limit", 1)
			if n != overAt {
				c.Violation("invocations/count", sfmt("response limit %d: attempt %d wrote more than that, so the exchange ends there; the handler was invoked %d times", maxResp, overAt, n), desc)
				return
			}
			if got.status < 400 || bytes.Contains(got.body, []byte("[a")) {
				c.Violation("response/over-limit", sfmt("response limit %d exceeded by attempt %d: the client got status %d and %d body bytes (bytes of an attempt among them: %v); exactly one error response without any attempt's bytes is due", maxResp, overAt, got.status, len(got.body), bytes.Contains(got.body, []byte("[a"))), desc)
				return
			}
			c.Nontrivial(sfmt("overlimit/%s/%d/%d", exprText, maxResp, overAt))
			return
		}
		if n != final {
			key := "invocations/count"
			c.Violation(key, sfmt("retry %q, method %s: handler invoked %d times, standard evaluation of the expression over the attempts' status codes predicts %d", exprText, method, n, final), desc)
			return
		}
		if got.status != want.status {
			key := "response/status"
			if scripts[final-1].Status == 0 {
				key = "response/implicit-status"
			} else if len(want.body) == 0 {
				key = "response/empty-body"
			}
			c.Violation(key, sfmt("client saw status %d, the final attempt (#%d) produced %d (script status %d, %d body bytes)", got.status, final, want.status, scripts[final-1].Status, len(want.body)), desc)
			return
		}
		if !bytes.Equal(got.body, want.body) {
			key := "response/body"
			if bytes.Contains(got.body, []byte("[a")) && final > 1 {
				for k := 1; k < final; k++ {
					if bytes.Contains(got.body, []byte(sfmt("[a%d.", k))) {
						key = "response/leak-of-discarded-attempt"
					}
				}
			}
			c.Violation(key, sfmt("client body has %d bytes, the final attempt's %d; first difference at offset %d", len(got.body), len(want.body), firstDiff(got.body, want.body)), desc)
			return
		}
		explicitCT := false
		for _, hh := range scripts[final-1].Headers {
			if hh[0] == "Content-Type" {
				explicitCT = true
			}
		}
		if !explicitCT { // a Content-Type sniffed by net/http is not something the handler produced
			got.hdr.Del("Content-Type")
			want.hdr.Del("Content-Type")
		}
		if ok, why := hdrEqual(got.hdr, want.hdr); !ok {
			key := "response/headers"
			for k := 1; k < final; k++ {
				if got.hdr.Get(sfmt("X-Only-Attempt-%d", k)) != "" {
					key = "response/leak-of-discarded-attempt"
				}
			}
			c.Violation(key, sfmt("client headers differ from the final attempt's: %s", why), desc)
			return
		}
		// a length the final attempt announced itself is one of its headers (it is what a HEAD or 304 answer is for);
		// differential against the bare server, which applies the same net/http rules to the same handler
		if scripts[final-1].DeclLen {
			c.Count("final_attempts_announcing_their_length", 1)
			if got.cl != want.cl {
				c.Violation("response/headers", sfmt("%s, final attempt (#%d) answers %d and sets Content-Length itself: the bare handler's client receives Content-Length %q, the buffer's client %q", method, final, want.status, want.cl, got.cl), desc)
				return
			}
		}
		if final >= 2 || scripts[final-1].Status == 0 || len(want.body) == 0 {
			c.Nontrivial(sfmt("%s/%s/%d/%v", exprText, method, final, scripts[final-1]))
			c.Count("cases_nontrivial", 1)
		}
		if final >= 2 {
			c.Count("cases_with_retries", 1)
		}
		if final == 11 {
			c.Count("cases_hitting_the_11_invocation_cap", 1)
		}
		if i < 3 || (final > 2 && i < 40) {
			c.Sample(desc)
		}
	})
	c.Require("cases_nontrivial", 2)
	c.Require("cases_with_retries", 1)
	_ = net.IPv4len
	_ = sort.Strings
	_ = strings.Join
}
