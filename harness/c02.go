package main

import (
	"errors"
	"github.com/vulcand/oxy/v2/roundrobin/stickycookie"
	"math/rand/v2"
	"net/http"
	"net/http/httptest"
	"net/url"
	"sort"
	"strings"
	"sync"
	"sync/atomic"
	"time"

	"github.com/vulcand/oxy/v2/roundrobin"
)

func init() {
	register(&Property{
		ID:    "C02",
		Level: "exploration",
		Rule: "generated administration histories (upsert new/same/re-weight incl. 0, remove present/absent/twice, request bursts) over a universe of 6 server identities with userinfo/query variants, run identically against RoundRobin and Rebalancer(RoundRobin); " +
			"after every operation Servers()/ServerWeight()/the next rotation of selections are compared with a reference map keyed by (scheme,host,path); downstream handlers rewrite req.URL in place on sticky and non-sticky paths; " +
			"the concurrent part ends with rounds of six callers adding the same unknown server at once (one removal takes it out, a second fails); " +
			"concurrent part: requests racing with administration must be routed to a server that was a positive-weight member at some instant between call and return; non-trivial = history with a removal of a present server followed by requests; distinct by (target, meter mode, script)",
		Assumptions: []string{"a new server upserted with weight 0 gets the default weight 1 (library convention)", "rebalancer weight equality is only demanded right after a membership/weight change"},
		Parts: []Part{
			{Name: "script", Shards: 8, Fn: c02Script},
			{Name: "mutate", Shards: 2, Fn: c02Mutate},
			{Name: "conc", Race: true, Shards: 4, Fn: c02Conc},
		},
	})
}

var c02Identities = []string{
	"http://h0.test/", "http://h0.test/a", "https://h0.test/", "http://h0.test:8080/", "http://h1.test/", "http://h2.test/b/c",
}

func c02Variant(r *rand.Rand, id string) *url.URL {
	u := mustURL(id)
	switch r.IntN(4) {
	case 1:
		u.User = url.UserPassword("user", "pw")
	case 2:
		u.RawQuery = "x=1&y=2"
	case 3:
		u.User = url.User("bob")
		u.RawQuery = "q"
	}
	return u
}

// scriptedMeter is a rebalancer Meter with externally chosen rating/readiness.
type scriptedMeter struct {
	mu     sync.Mutex
	rating float64
	ready  bool
	recs   int
}

func (m *scriptedMeter) Rating() float64 {
	m.mu.Lock()
	defer m.mu.Unlock()
	return m.rating
}
func (m *scriptedMeter) Record(int, time.Duration) {
	m.mu.Lock()
	m.recs++
	m.mu.Unlock()
}
func (m *scriptedMeter) IsReady() bool {
	m.mu.Lock()
	defer m.mu.Unlock()
	return m.ready
}
func (m *scriptedMeter) set(rating float64, ready bool) {
	m.mu.Lock()
	m.rating, m.ready = rating, ready
	m.mu.Unlock()
}

// c02Target abstracts RoundRobin and Rebalancer(RoundRobin).
var c02Backoff = time.Second

type c02Target struct {
	failMeter atomic.Bool // the next meter the rebalancer asks for cannot be created
	name      string
	rr        *roundrobin.RoundRobin
	rb        *roundrobin.Rebalancer
	meters    []*scriptedMeter
	mmu       sync.Mutex
}

// upsert hands the balancer the caller's own url.URL value and, as callers do, goes on using that value afterwards
// (here: scribbles over it): the pool is defined by what was passed at the time of the call.
func (t *c02Target) upsert(u *url.URL, opts ...roundrobin.ServerOption) error {
	mine := *u
	if u.User != nil {
		ui := *u.User
		mine.User = &ui
	}
	defer func() {
		mine.Scheme, mine.Host, mine.Path, mine.RawQuery, mine.User = "https", "scribbled-after-the-call.test", "/scribbled", "x=1", nil
	}()
	if t.rb != nil {
		return t.rb.UpsertServer(&mine, opts...)
	}
	return t.rr.UpsertServer(&mine, opts...)
}
func (t *c02Target) remove(u *url.URL) error {
	if t.rb != nil {
		return t.rb.RemoveServer(u)
	}
	return t.rr.RemoveServer(u)
}
func (t *c02Target) servers() []*url.URL {
	if t.rb != nil {
		return t.rb.Servers()
	}
	return t.rr.Servers()
}
func (t *c02Target) serve(w http.ResponseWriter, r *http.Request) {
	if t.rb != nil {
		t.rb.ServeHTTP(w, r)
		return
	}
	t.rr.ServeHTTP(w, r)
}

func newC02Target(kind string, next http.Handler, meterMode string, r *rand.Rand, sticky *roundrobin.StickySession) *c02Target {
	t := &c02Target{name: kind}
	var opts []roundrobin.LBOption
	if sticky != nil && kind == "rr" {
		opts = append(opts, roundrobin.EnableStickySession(sticky))
	}
	rr, err := roundrobin.New(next, opts...)
	if err != nil {
		panic(err)
	}
	t.rr = rr
	if kind == "rb" {
		ropts := []roundrobin.RebalancerOption{roundrobin.RebalancerBackoff(c02Backoff)}
		if meterMode != "default" {
			ropts = append(ropts, roundrobin.RebalancerMeter(func() (roundrobin.Meter, error) {
				if t.failMeter.Load() {
					return nil, errors.New("scripted: meter cannot be created")
				}
				m := &scriptedMeter{}
				t.mmu.Lock()
				t.meters = append(t.meters, m)
				t.mmu.Unlock()
				return m, nil
			}))
		}
		if sticky != nil {
			ropts = append(ropts, roundrobin.RebalancerStickySession(sticky))
		}
		rb, err := roundrobin.NewRebalancer(rr, ropts...)
		if err != nil {
			panic(err)
		}
		t.rb = rb
	}
	return t
}

func (t *c02Target) shuffleMeters(r *rand.Rand, mode string) {
	if mode != "scripted" {
		return
	}
	t.mmu.Lock()
	defer t.mmu.Unlock()
	for _, m := range t.meters {
		m.set(pick(r, []float64{0, 0, 0.01, 0.2, 0.5, 0.9, 1}), r.IntN(8) != 0)
	}
}

func keysOf(us []*url.URL) []string {
	out := make([]string, len(us))
	for i, u := range us {
		out[i] = urlKey(u)
	}
	sort.Strings(out)
	return out
}

func c02Script(c *Ctx) {
	hung := false
	c.Cases("hist", c.N(2500, 60000), func(i int, r *rand.Rand) {
		if hung {
			return
		}
		// nothing in a case can block except a call into the balancer / rebalancer (recorders, no sockets)
		if !c.Guard(90*time.Second, func() { c02ScriptCase(c, i, r) }) {
			hung = true
			c.Violation("hang", "a call into the balancer (request, pool change or inspection) did not return within 90s: the balancer is blocked, typically a lock that was not released on some path", map[string]any{"case": i})
		}
	})
	c.Require("histories_nontrivial", 2)
	c.Require("remove_unknown_checked", 1)
	c.Require("unservable_pool_checks", 1)
}

func c02ScriptCase(c *Ctx, i int, r *rand.Rand) {
	{
		kind := pick(r, []string{"rr", "rb", "rb"})
		meterMode := "never"
		if kind == "rb" {
			meterMode = pick(r, []string{"never", "scripted", "default"})
		}
		if i == 0 { // forced: the R1 witness shape
			kind, meterMode = "rb", "never"
		}
		freeze(baseTime)
		defer unfreeze()
		var invoked atomic.Int64
		var lastKey atomic.Value
		h := http.HandlerFunc(func(w http.ResponseWriter, req *http.Request) {
			invoked.Add(1)
			lastKey.Store(urlKey(req.URL))
			if r := req.Header.Get("X-Status"); r == "500" {
				w.WriteHeader(500)
			}
		})
		t := newC02Target(kind, h, meterMode, r, nil)
		model := map[string]int{}
		var script []string
		removedPresent, requestsAfterRemoval := false, 0
		keyOverride := ""
		fail := func(key, msg string) {
			if keyOverride != "" {
				key = keyOverride
			}
			c.Violation(key, sfmt("%s/%s: %s (after script %v)", kind, meterMode, msg, script), map[string]any{"target": kind, "meters": meterMode, "script": script, "model": model})
		}
		check := func(afterAdmin bool) bool {
			// 1. membership
			got := keysOf(t.servers())
			var want []string
			for k := range model {
				want = append(want, k)
			}
			sort.Strings(want)
			if strings.Join(got, ",") != strings.Join(want, ",") {
				key := "members/servers-list"
				if len(got) > len(want) {
					key = "members/extra-or-duplicate"
				}
				fail(key, sfmt("Servers() = %v, reference %v", got, want))
				return false
			}
			// 2. weights
			for _, id := range c02Identities {
				u := mustURL(id)
				w, ok := t.rr.ServerWeight(u)
				mw, mok := model[urlKey(u)]
				if ok != mok {
					fail("weights/presence", sfmt("ServerWeight(%s) present=%v, reference present=%v", id, ok, mok))
					return false
				}
				if ok && w != mw && (meterMode != "scripted" || afterAdmin) {
					fail("weights/value", sfmt("ServerWeight(%s) = %d, configured %d", id, w, mw))
					return false
				}
			}
			return true
		}
		rotation := func() bool {
			pos := map[string]bool{}
			g, sum := 0, 0
			for k, w := range model {
				if w > 0 {
					pos[k] = true
					g = gcdInt(g, w)
					sum += w
				}
			}
			if len(pos) == 0 {
				for k := 0; k < 5; k++ {
					before := invoked.Load()
					rec := httptest.NewRecorder()
					t.serve(rec, httptest.NewRequest("GET", "http://client.test/", nil))
					c.Count("requests", 1)
					if invoked.Load() != before || rec.Code < 400 {
						key := "empty/forwarded"
						if len(model) > 0 {
							key = "allzero/forwarded"
						}
						fail(key, sfmt("pool without a positive-weight server answered %d and forwarded=%v", rec.Code, invoked.Load() != before))
						return false
					}
					if _, err := t.rr.NextServer(); err == nil {
						fail("allzero/forwarded", "NextServer succeeded on a pool without a positive-weight server")
						return false
					}
				}
				c.Count("unservable_pool_checks", 1)
				return true
			}
			W := sum / g
			seen := map[string]bool{}
			for k := 0; k < W; k++ {
				before := invoked.Load()
				rec := httptest.NewRecorder()
				req := httptest.NewRequest("GET", "http://client.test/", nil)
				if meterMode == "default" && r.IntN(3) == 0 {
					req.Header.Set("X-Status", "500")
				}
				t.serve(rec, req)
				c.Count("requests", 1)
				if invoked.Load() != before+1 {
					fail("serve/not-forwarded", sfmt("request to a servable pool invoked the handler %d times (status %d)", invoked.Load()-before, rec.Code))
					return false
				}
				k := lastKey.Load().(string)
				if !pos[k] {
					key := "route/nonmember"
					if _, ok := model[k]; ok {
						key = "route/zero-weight"
					}
					fail(key, sfmt("request routed to %q which is not a positive-weight member (members %v)", k, model))
					return false
				}
				seen[k] = true
				if removedPresent {
					requestsAfterRemoval++
				}
				if meterMode == "scripted" {
					t.shuffleMeters(r, meterMode)
					advance(time.Duration(r.IntN(1500)) * time.Millisecond)
				}
			}
			if meterMode != "scripted" && len(seen) != len(pos) {
				fail("route/not-within-rotation", sfmt("one rotation of %d requests reached %v, positive-weight members %v", W, seen, pos))
				return false
			}
			return true
		}
		nops := 20 + r.IntN(c.N(60, 180))
		quietLeft, pendingChanged := 0, false
		for s := 0; s < nops; s++ {
			id := pick(r, c02Identities)
			u := c02Variant(r, id)
			k := urlKey(u)
			if i == 0 && s < 4 { // forced prefix: upsert a, upsert b, re-weight a, remove a
				u = mustURL([]string{"http://h0.test/", "http://h1.test/", "http://h0.test/", "http://h0.test/"}[s])
				k = urlKey(u)
			}
			op := r.IntN(10)
			if i == 0 && s < 4 {
				op = []int{0, 0, 0, 6}[s]
			}
			changed := false
			switch {
			case op < 4 && kind == "rb" && r.IntN(6) == 0 && func() bool { _, ex := model[k]; return !ex }():
				// the server is first added to the wrapped balancer directly and then registered, with the same weight,
				// with the rebalancer around it (a pool that existed before the rebalancer was put in front)
				w := 1 + r.IntN(5)
				script = append(script, sfmt("inner-add-then-register(%s,w=%d)", u.String(), w))
				if err := t.rr.UpsertServer(u, roundrobin.Weight(w)); err != nil {
					fail("upsert/error", "UpsertServer on the wrapped balancer failed: "+err.Error())
					return
				}
				if err := t.upsert(u, roundrobin.Weight(w)); err != nil {
					fail("upsert/error", "registering a server the wrapped balancer already knows failed: "+err.Error())
					return
				}
				model[k] = w
				changed = true
				c.Count("inner_add_then_register", 1)
			case op < 4: // upsert with weight
				w := r.IntN(7)
				if r.IntN(3) == 0 {
					w = 0
				}
				if i == 0 && s < 4 {
					w = []int{1, 1, 3, 0}[s]
				}
				script = append(script, sfmt("upsert(%s,w=%d)", u.String(), w))
				if err := t.upsert(u, roundrobin.Weight(w)); err != nil {
					fail("upsert/error", "UpsertServer failed: "+err.Error())
					return
				}
				if _, ok := model[k]; !ok && w == 0 {
					w = 1
				}
				model[k] = w
				changed = true
			case op < 5 && r.IntN(4) == 0 && kind == "rb" && meterMode != "default" && func() bool { _, ex := model[k]; return !ex }():
				// adding a new server through the rebalancer fails half-way (its meter cannot be created): nothing may change
				script = append(script, sfmt("upsert(%s) with failing meter factory", u.String()))
				t.failMeter.Store(true)
				err := t.upsert(u, roundrobin.Weight(1+r.IntN(4)))
				t.failMeter.Store(false)
				c.Count("failed_adds_checked", 1)
				quietLeft, pendingChanged = 0, false
				if err == nil {
					fail("upsert/failed-add-accepted", "UpsertServer returned nil although the meter for the new server could not be created")
					return
				}
				keyOverride = "upsert/failed-add-changed-pool"
				okc := check(false)
				if okc {
					script = append(script, "rotation")
					okc = rotation()
				}
				keyOverride = ""
				if !okc {
					return
				}
				continue
			case op < 5 && r.IntN(5) == 0 && kind == "rb" && meterMode != "default" && func() bool { _, ex := model[k]; return ex }():
				// the meter factory is out of order while an EXISTING member is re-weighted: no new meter is needed for
				// that, the call succeeds and the member stays where it is
				w := 1 + r.IntN(5)
				script = append(script, sfmt("upsert(%s,w=%d) of a member while the meter factory fails", u.String(), w))
				t.failMeter.Store(true)
				err := t.upsert(u, roundrobin.Weight(w))
				t.failMeter.Store(false)
				if err != nil {
					fail("upsert/error", "re-weighting an existing member failed because the meter factory (not needed for it) fails: "+err.Error())
					return
				}
				model[k] = w
				changed = true
				c.Count("reweights_with_failing_meter_factory", 1)
			case op < 5 && r.IntN(3) == 0: // an upsert whose option is rejected must fail and change nothing
				_, existed := model[k]
				w := r.IntN(7)
				var err error
				if existed || r.IntN(2) == 0 {
					script = append(script, sfmt("upsert(%s,w=%d,w=-1)", u.String(), w))
					err = t.upsert(u, roundrobin.Weight(w), roundrobin.Weight(-1))
				} else {
					script = append(script, sfmt("upsert(%s,w=-1)", u.String()))
					err = t.upsert(u, roundrobin.Weight(-1))
				}
				quietLeft, pendingChanged = 0, false
				c.Count("rejected_upserts_checked", 1)
				if err == nil {
					fail("upsert/invalid-accepted", "UpsertServer with a negative weight returned nil")
					return
				}
				keyOverride = "upsert/rejected-call-changed-pool"
				okc := check(false) // membership and (outside scripted mode) weights must be untouched
				keyOverride = ""
				if !okc {
					return
				}
				// the failed call may have altered state in ways only traffic shows
				script = append(script, "rotation")
				if !rotation() {
					return
				}
				continue
			case op < 5: // upsert without options
				script = append(script, sfmt("upsert(%s)", u.String()))
				if err := t.upsert(u); err != nil {
					fail("upsert/error", "UpsertServer failed: "+err.Error())
					return
				}
				if _, ok := model[k]; !ok {
					model[k] = 1
					changed = true
				} else if meterMode == "scripted" {
					// re-upsert without a weight keeps whatever weight the balancer holds at that moment
					if w, ok := t.rr.ServerWeight(u); ok {
						model[k] = w
					}
					changed = true
				}
			case op < 8: // remove
				script = append(script, sfmt("remove(%s)", u.String()))
				// the effective weights in force before the call: a removal that fails "changes nothing", weights included
				effBefore := map[string]int{}
				for _, id := range c02Identities {
					if w, ok := t.rr.ServerWeight(mustURL(id)); ok {
						effBefore[id] = w
					}
				}
				err := t.remove(u)
				_, present := model[k]
				if !present && err != nil {
					for _, id := range c02Identities {
						w, ok := t.rr.ServerWeight(mustURL(id))
						if wb, okb := effBefore[id]; ok != okb || (ok && w != wb) {
							fail("remove/unknown-changed-weights", sfmt("RemoveServer of an unknown server failed (%v) but changed the weight in force of %s from %d to %d (present %v -> %v)", err, id, wb, w, okb, ok))
							return
						}
					}
					c.Count("failed_removals_weights_compared", 1)
				}
				if present {
					if err != nil {
						fail("remove/present-failed", "RemoveServer of a present server failed: "+err.Error())
						return
					}
					delete(model, k)
					removedPresent = true
					changed = true
					if r.IntN(3) == 0 { // remove twice
						script = append(script, "remove-again")
						if err := t.remove(u); err == nil {
							fail("remove/unknown-succeeded", "second RemoveServer of the same server returned nil")
							return
						}
					}
				} else {
					c.Count("remove_unknown_checked", 1)
					if err == nil {
						fail("remove/unknown-succeeded", "RemoveServer of an unknown server returned nil")
						return
					}
				}
			default:
				script = append(script, "rotation")
				quietLeft, pendingChanged = 0, false
				if !check(false) || !rotation() {
					return
				}
				continue
			}
			c.Count("admin_ops", 1)
			if quietLeft > 0 { // a batch of administration calls with nothing observed in between
				quietLeft--
				pendingChanged = pendingChanged || changed
				c.Count("admin_ops_unobserved", 1)
				continue
			}
			if r.IntN(5) == 0 {
				quietLeft = 1 + r.IntN(3)
			}
			changed = changed || pendingChanged
			pendingChanged = false
			if !check(changed) {
				return
			}
			if r.IntN(3) == 0 {
				script = append(script, "rotation")
				if !rotation() {
					return
				}
			}
			if meterMode == "scripted" {
				advance(time.Duration(r.IntN(2500)) * time.Millisecond)
			}
		}
		if kind == "rb" && meterMode == "scripted" && len(model) > 0 {
			// still stretch: the clock stands still and every server is rated alike, so after one warm-up request (which may
			// be the one weight adjustment that is due) nothing is due any more; within two rotations of the weights then in
			// force every member with a positive weight must have been selected
			t.mmu.Lock()
			for _, m := range t.meters {
				m.set(0, true)
			}
			t.mmu.Unlock()
			t.serve(httptest.NewRecorder(), httptest.NewRequest("GET", "http://client.test/", nil))
			eff := func() (map[string]int, int) {
				ws, g, sum := map[string]int{}, 0, 0
				for _, id := range c02Identities {
					u := mustURL(id)
					if mw := model[urlKey(u)]; mw > 0 {
						if w, ok := t.rr.ServerWeight(u); ok && w > 0 {
							ws[urlKey(u)] = w
							g = gcdInt(g, w)
							sum += w
						}
					}
				}
				if g == 0 {
					return ws, 0
				}
				return ws, sum / g
			}
			ws, W := eff()
			if W > 0 && W <= 3000 {
				seen := map[string]int{}
				for q := 0; q < 2*W; q++ {
					t.serve(httptest.NewRecorder(), httptest.NewRequest("GET", "http://client.test/", nil))
					seen[lastKey.Load().(string)]++
				}
				ws2, _ := eff()
				if sfmt("%v", ws) == sfmt("%v", ws2) {
					c.Count("still_stretches_checked", 1)
					for k, w := range ws {
						if seen[k] == 0 {
							script = append(script, "still-stretch")
							fail("route/not-within-rotation", sfmt("clock standing still, all servers rated alike, effective weights %v (one rotation = %d requests): member %s has weight %d but received none of %d consecutive requests (%v)", ws, W, k, w, 2*W, seen))
							return
						}
					}
				}
			}
		}
		c.Eval()
		if removedPresent && requestsAfterRemoval > 0 {
			c.Nontrivial(sfmt("%s/%s/%x", kind, meterMode, hash64(strings.Join(script, ";"))))
			c.Count("histories_nontrivial", 1)
		}
		if i < 2 {
			c.Sample(map[string]any{"target": kind, "meters": meterMode, "script_prefix": script[:min(len(script), 10)]})
		}
	}
}

// c02Mutate: nothing a downstream handler does to the request alters the pool.
func c02Mutate(c *Ctx) {
	hung := false
	c.Cases("mutate", c.N(1000, 20000), func(i int, r *rand.Rand) {
		if hung {
			return
		}
		if !c.Guard(90*time.Second, func() { c02MutateCase(c, i, r) }) {
			hung = true
			c.Violation("hang", "a call into the balancer (request, pool change or inspection) did not return: the balancer is blocked, typically a lock that was not released on some path", map[string]any{"case": i})
		}
	})
	c.Require("cases_with_sticky_path", 2)
}

func c02MutateCase(c *Ctx, i int, r *rand.Rand) {
	{
		kind := pick(r, []string{"rr", "rb"})
		useSticky := r.IntN(3) != 0
		if i == 0 {
			kind, useSticky = "rr", true
		}
		if i == 1 {
			kind, useSticky = "rb", true
		}
		freeze(baseTime)
		defer unfreeze()
		var sticky *roundrobin.StickySession
		if useSticky {
			sticky = roundrobin.NewStickySession("aff")
		}
		mutation := r.IntN(6)
		h := http.HandlerFunc(func(w http.ResponseWriter, req *http.Request) {
			switch mutation {
			case 0:
				req.URL.Host = "evil.test"
			case 1:
				req.URL.Path = "/mutated"
			case 2:
				req.URL.Scheme = "gopher"
			case 3:
				if req.URL.User != nil {
					*req.URL.User = *url.UserPassword("evil", "evil")
				}
				req.URL.User = url.User("evil")
			case 4:
				req.URL.RawQuery = "evil=1"
				req.URL.Fragment = "frag"
			case 5:
				*req.URL = url.URL{Scheme: "http", Host: "evil.test", Path: "/"}
			}
		})
		t := newC02Target(kind, h, "never", r, sticky)
		n := 2 + r.IntN(3)
		var orig []string
		var urls []*url.URL
		for k := 0; k < n; k++ {
			u := c02Variant(r, c02Identities[k])
			if k == 0 {
				u.User = url.UserPassword("user", "pw")
			}
			urls = append(urls, u)
			if err := t.upsert(u, roundrobin.Weight(1+r.IntN(3))); err != nil {
				c.Violation("upsert/error", err.Error(), nil)
				return
			}
		}
		for _, u := range t.servers() {
			orig = append(orig, u.String())
		}
		sort.Strings(orig)
		stickyHits := 0
		var script []string
		for k := 0; k < 12; k++ {
			req := httptest.NewRequest("GET", "http://client.test/", nil)
			withCookie := useSticky && r.IntN(2) == 0
			if k == 0 {
				withCookie = useSticky
			}
			if withCookie {
				target := urls[r.IntN(len(urls))]
				bare := url.URL{Scheme: target.Scheme, Host: target.Host, Path: target.Path}
				req.AddCookie(&http.Cookie{Name: "aff", Value: bare.String()})
				stickyHits++
				script = append(script, "cookie:"+bare.String())
			} else {
				script = append(script, "plain")
			}
			t.serve(httptest.NewRecorder(), req)
			c.Count("requests", 1)
			var cur []string
			for _, u := range t.servers() {
				cur = append(cur, u.String())
			}
			sort.Strings(cur)
			if strings.Join(cur, " ") != strings.Join(orig, " ") {
				key := "mutate/plain-path"
				if withCookie {
					key = "mutate/sticky-path"
				}
				c.Violation(key, sfmt("%s sticky=%v: after a downstream handler edited req.URL (mutation %d) the pool changed from %v to %v", kind, useSticky, mutation, orig, cur),
					map[string]any{"target": kind, "mutation": mutation, "script": script})
				return
			}
		}
		if useSticky {
			// a client that stuck to a server keeps presenting its affinity cookie after that server has been removed: "a
			// removed server is never selected again" (plain and hashed cookie values)
			st2 := roundrobin.NewStickySession("aff2")
			codec := "raw"
			if r.IntN(2) == 0 {
				st2.SetCookieValue(&stickycookie.HashValue{Salt: "pepper"})
				codec = "hash"
			}
			last := ""
			t2 := newC02Target(kind, http.HandlerFunc(func(w http.ResponseWriter, req *http.Request) { last = urlKey(req.URL) }), "never", r, st2)
			for _, u := range urls {
				if err := t2.upsert(u, roundrobin.Weight(1)); err != nil {
					c.Violation("upsert/error", err.Error(), nil)
					return
				}
			}
			rec := httptest.NewRecorder()
			t2.serve(rec, httptest.NewRequest("GET", "http://client.test/", nil))
			var ck *http.Cookie
			for _, k := range rec.Result().Cookies() {
				if k.Name == "aff2" {
					ck = k
				}
			}
			stuck := last
			if ck != nil && stuck != "" {
				send := func() string {
					last = ""
					req := httptest.NewRequest("GET", "http://client.test/", nil)
					req.AddCookie(&http.Cookie{Name: "aff2", Value: ck.Value})
					t2.serve(httptest.NewRecorder(), req)
					return last
				}
				if send() == stuck { // (pinning itself is C11's concern: only pinned sessions are decided here)
					for _, u := range urls {
						if urlKey(u) == stuck {
							if err := t2.remove(u); err != nil {
								c.Violation("remove/present-failed", "RemoveServer of a present server failed: "+err.Error(), nil)
								return
							}
						}
					}
					c.Count("removed_servers_probed_with_their_affinity_cookie", 1)
					if got := send(); got == stuck {
						c.Violation("remove/sticky-still-routed", sfmt("%s, %s affinity cookie: a session was pinned to %s, the server was removed, and the next request carrying the cookie was still routed to it (members now %v)", kind, codec, stuck, keysOf(t2.servers())), map[string]any{"target": kind, "codec": codec})
						return
					}
				}
			}
		}
		c.Eval()
		c.Nontrivial(sfmt("mut/%s/%v/%d/%v/%v", kind, useSticky, mutation, orig, script))
		if stickyHits > 0 {
			c.Count("cases_with_sticky_path", 1)
		}
		if i < 2 {
			c.Sample(map[string]any{"target": kind, "sticky": useSticky, "mutation": mutation, "pool": orig, "script": script})
		}
	}
}

// c02Conc: requests racing with administration.
func c02Conc(c *Ctx) {
	hung := false
	c.Cases("conc", c.N(120, 4000), func(i int, r *rand.Rand) {
		if hung {
			return
		}
		if !c.Guard(180*time.Second, func() { c02ConcCase(c, i, r) }) { // (a case takes well under a second)
			hung = true
			c.Violation("hang", "a call into the balancer (request, pool change or inspection) did not return: the balancer is blocked, typically a lock that was not released on some path", map[string]any{"case": i})
		}
	})
	c.Require("conc_nontrivial", 2)
}

func c02ConcCase(c *Ctx, i int, r *rand.Rand) {
	{
		kind := pick(r, []string{"rr", "rb"})
		var clk atomic.Int64
		type obs struct {
			key       string
			call, ret int64
		}
		const G = 8
		observed := make([][]obs, G)
		type ctxKey struct{}
		h := http.HandlerFunc(func(w http.ResponseWriter, req *http.Request) {
			req.Header.Set("X-Seen", urlKey(req.URL))
		})
		// rebalancer: scripted, ready meters with changing ratings and a 1ms back-off (real clock), so weight
		// adjustments (which re-upsert every server record) race with the administration calls
		mode := "never"
		if kind == "rb" && i%4 != 3 {
			mode = "scripted"
		}
		c02Backoff = time.Millisecond
		t := newC02Target(kind, h, mode, r, nil)
		c02Backoff = time.Second
		shuffleSeed := r.Uint64()
		var shuffleStop atomic.Bool
		var shuffleWG sync.WaitGroup
		if mode == "scripted" {
			shuffleWG.Add(1)
			go func() {
				defer shuffleWG.Done()
				sr := rand.New(rand.NewPCG(shuffleSeed, 7))
				for !shuffleStop.Load() {
					t.shuffleMeters(sr, "scripted")
					time.Sleep(200 * time.Microsecond)
				}
			}()
		}
		// intervals during which a key may have been a positive-weight member
		type iv struct{ from, to int64 }
		ivs := map[string][]iv{}
		open := map[string]int64{}
		model := map[string]int{}
		var stop atomic.Bool
		var wg sync.WaitGroup
		for g := 0; g < G; g++ {
			wg.Add(1)
			go func(g int) {
				defer wg.Done()
				for !stop.Load() {
					req := httptest.NewRequest("GET", "http://client.test/", nil)
					rec := httptest.NewRecorder()
					call := clk.Add(1)
					t.serve(rec, req)
					ret := clk.Add(1)
					k := req.Header.Get("X-Seen") // ServeHTTP makes a shallow copy: header map is shared
					if k != "" {
						observed[g] = append(observed[g], obs{k, call, ret})
					}
				}
			}(g)
		}
		nops := 60 + r.IntN(200)
		for s := 0; s < nops; s++ {
			u := c02Variant(r, pick(r, c02Identities))
			k := urlKey(u)
			if r.IntN(3) > 0 {
				w := r.IntN(4)
				_, existed := model[k]
				eff := w
				if !existed && w == 0 {
					eff = 1
				}
				before := clk.Add(1)
				if eff > 0 {
					if _, isOpen := open[k]; !isOpen {
						open[k] = before
					}
				}
				if err := t.upsert(u, roundrobin.Weight(w)); err != nil {
					c.Violation("upsert/error", err.Error(), nil)
					break
				}
				after := clk.Add(1)
				model[k] = eff
				if eff == 0 {
					if from, isOpen := open[k]; isOpen {
						ivs[k] = append(ivs[k], iv{from, after})
						delete(open, k)
					}
				}
			} else {
				_ = clk.Add(1)
				err := t.remove(u)
				after := clk.Add(1)
				if _, ok := model[k]; ok {
					if err != nil {
						c.Violation("remove/present-failed", err.Error(), nil)
						break
					}
					delete(model, k)
					if from, isOpen := open[k]; isOpen {
						ivs[k] = append(ivs[k], iv{from, after})
						delete(open, k)
					}
				} else if err == nil {
					c.Violation("remove/unknown-succeeded", "RemoveServer of unknown server returned nil under concurrency", nil)
					break
				}
			}
			if r.IntN(4) == 0 {
				time.Sleep(time.Duration(r.IntN(200)) * time.Microsecond)
			}
		}
		stop.Store(true)
		wg.Wait()
		shuffleStop.Store(true)
		shuffleWG.Wait()
		end := clk.Add(1)
		// quiescent point: membership must be exactly what the administration calls defined
		{
			got := keysOf(t.servers())
			var want []string
			for k := range model {
				want = append(want, k)
			}
			sort.Strings(want)
			if strings.Join(got, ",") != strings.Join(want, ",") {
				c.Violation("conc/members-after-quiescence", sfmt("%s/%s: after requests racing with administration, Servers() = %v but the calls made define %v", kind, mode, got, want), nil)
				return
			}
			c.Count("conc_quiescent_membership_checks", 1)
		}
		// administration calls racing with each other: several callers add the same, not yet known server at once; it is
		// then one member: one removal takes it out, a second removal fails, and it is no longer listed
		for round := 0; round < 12; round++ {
			nu := mustURL(sfmt("http://racing-add-%d.test/p", round))
			startAdd := make(chan struct{})
			var awg sync.WaitGroup
			for g := 0; g < 6; g++ {
				awg.Add(1)
				go func() {
					defer awg.Done()
					<-startAdd
					_ = t.upsert(nu, roundrobin.Weight(1))
				}()
			}
			close(startAdd)
			awg.Wait()
			c.Count("conc_racing_adds", 1)
			if err := t.remove(nu); err != nil {
				c.Violation("conc/racing-add-not-added", sfmt("%s: server added by 6 concurrent UpsertServer calls cannot be removed: %v", kind, err), nil)
				return
			}
			err2 := t.remove(nu)
			listed := false
			for _, k := range keysOf(t.servers()) {
				listed = listed || k == urlKey(nu)
			}
			if err2 == nil || listed {
				c.Violation("conc/racing-add-duplicated", sfmt("%s: a server added by 6 concurrent UpsertServer calls and then removed once is still a member (second RemoveServer error: %v, still listed: %v)", kind, err2, listed), nil)
				return
			}
		}
		for k, from := range open {
			ivs[k] = append(ivs[k], iv{from, end})
		}
		total, during := 0, 0
		for g := range observed {
			for _, o := range observed[g] {
				total++
				ok := false
				for _, v := range ivs[o.key] {
					if v.from <= o.ret && o.call <= v.to {
						ok = true
						break
					}
				}
				if !ok {
					c.Violation("conc/route-nonmember", sfmt("%s: request [%d,%d] was routed to %q, which was not a positive-weight member at any instant in that interval (membership intervals %v)", kind, o.call, o.ret, o.key, ivs[o.key]), nil)
					return
				}
				if o.call < end-1 {
					during++
				}
			}
		}
		c.Eval()
		c.Count("conc_requests_checked", int64(total))
		c.Count("conc_admin_ops", int64(nops))
		if total > 50 {
			c.Nontrivial(sfmt("conc/%s/%d/%d", kind, nops, i))
			c.Count("conc_nontrivial", 1)
		}
		_ = ctxKey{}
	}
}
