package main

import (
	"math/rand/v2"
	"net/http"
	"net/http/httptest"
	"runtime"
	"strings"
	"sync"
	"sync/atomic"
	"time"

	"github.com/vulcand/oxy/v2/cbreaker"
)

// categories of model/breaker mismatches that refute each property
var cbCats = map[string]map[string]bool{
	"C05": {"shield": true, "standby": true, "until-tripped": true, "transition": true, "hang": true},
	"C12": {"ramp": true, "recovery-start": true, "recovery-end": true, "until-recovering": true, "trip|recovering=true": true},
	"C18": {"trip": true, "effects": true},
}

func cbBelongs(prop string, mm *cbMismatch) bool {
	if cbCats[prop][mm.Cat] {
		return true
	}
	if mm.Cat == "trip" && strings.HasSuffix(mm.Msg, "|recovering=true") && cbCats[prop]["trip|recovering=true"] {
		return true
	}
	return false
}

func init() {
	common := []string{"frozen library clock (hook)", "CircuitBreaker.String() is read only at quiescent points (no request is inside the breaker's own code)",
		"steps at which the statement leaves freedom are not decided: float equality in the ramp, a completion at exactly the last check instant, metric windows with samples 9-10s old (counters), latency samples of 50s and older (they may or may not have left the rolling histogram of 6 x 10s), latency quantiles within HDR precision or of rank 0"}
	register(&Property{
		ID:    "C05",
		Level: "exploration",
		Rule: "lock-step reference model of the documented breaker: online-generated scripts of arrive / complete(status) / advance steps with controlled handlers (up to 8 requests in flight across a trip), fallback 0.5-5s, recovery 1-4s, check period 0/100ms/1s, conditions from the C18 grammar, clock advances landing 1ns before / exactly on / 1ns after the end of the fallback period; per arrival the real decision (handler vs fallback) and the state read from String() are compared with the model; " +
			"quiet periods of several recovery durations after a trip; a fifth of the completions send 103 before the final status; part longfallback: fallback durations from 1h to the largest duration with arrivals spread over decades of frozen time; every free-running workload has a progress watchdog (no request returning for 20s = hang); " +
			"free-running supplements under the race detector: at a frozen instant, once any fallback answer has returned every request started later must get the fallback; and with a user-supplied Logger that yields inside every log call (the library's own suspension points) while a ticker advances the frozen clock, the sequence of state changes the breaker reports through that Logger must only move standby -> tripped -> recovering -> (standby or tripped); non-trivial = script with >=1 trip and >=1 arrival answered by the fallback while requests were in flight; distinct by (config, script)",
		Assumptions: common,
		Parts: []Part{
			{Name: "model", Shards: 12, Fn: func(c *Ctx) { cbModelPart(c, "C05") }},
			{Name: "free", Race: true, Shards: 4, Fn: c05Free},
			{Name: "cycle", Race: true, Shards: 4, Fn: c05Cycle},
			{Name: "longfallback", Shards: 2, Fn: c05LongFallback},
		},
	})
	register(&Property{
		ID:    "C12",
		Level: "exploration",
		Rule: "same lock-step engine, recovery-heavy scripts: bursts of 1-200 arrivals at one instant, trickles, idle gaps, arrivals exactly at the recovery end and 1ns after, outcome sequences that keep the condition false or make it true during recovery; every ramp decision is compared in exact integer arithmetic (2*D*(a+1) vs e*(a+d+1)) with an ambiguity band for float equality; " +
			"part endburst (race build): 2-8 requests released together just after the end of the recovery period must all return, all be passed, and leave the breaker standby; " +
			"free-running supplement: N concurrent arrivals at one frozen instant of the recovery period must pass exactly as many as the deterministic greedy ramp sequence; non-trivial = script with >=1 admitted and >=1 refused arrival during recovery; distinct by (config, script)",
		Assumptions: common,
		Parts: []Part{
			{Name: "model", Shards: 12, Fn: func(c *Ctx) { cbModelPart(c, "C12") }},
			{Name: "freeramp", Race: true, Shards: 4, Fn: c12FreeRamp},
			{Name: "longramp", Shards: 6, Fn: c12LongRamp},
			{Name: "endburst", Race: true, Shards: 4, Fn: c12EndBurst},
			{Name: "staleclear", Shards: 4, Fn: func(c *Ctx) { cbStaleClear(c) }},
		},
	})
	register(&Property{
		ID:    "C18",
		Level: "exploration",
		Rule: "same lock-step engine with condition ASTs generated from the grammar (&&, ||, nesting depth <= 3, six comparisons, NetworkErrorRatio, ResponseCodeRatio(a,b,c,d), LatencyAtQuantileMS(q)), rendered to text for cbreaker.New and evaluated by the harness over its own log of the responses recorded since the last trip; repeated trip/recover cycles, completions overlapping a trip, check periods 0/100ms/1s; side effects counted against observed transitions (too many: immediately; too few: after a bounded wait); " +
			"free-running supplement under the race detector: failing responses completing concurrently must trip exactly once and run the side effect exactly once per transition; non-trivial = script with >=1 decided evaluation that tripped and >=1 that did not; distinct by (condition, config, script)",
		Assumptions: common,
		Parts: []Part{
			{Name: "model", Shards: 12, Fn: func(c *Ctx) { cbModelPart(c, "C18") }},
			{Name: "freetrip", Race: true, Shards: 4, Fn: c18FreeTrip},
			{Name: "cycleeffects", Race: true, Shards: 4, Fn: c18CycleEffects},
			{Name: "staleclear", Shards: 4, Fn: func(c *Ctx) { cbStaleClear(c) }},
		},
	})
}

func cbModelPart(c *Ctx, prop string) {
	n := c.N(1500, 40000)
	c.Cases("script", n, func(i int, r *rand.Rand) {
		depth := 1
		if prop == "C18" {
			depth = 3
		}
		cfg := genCBConfig(r, depth)
		if i%5 == 0 || prop != "C18" && i%2 == 0 {
			// conditions that reliably trip on failures so that cycles are frequent
			cfg.Cond = pick(r, []*condNode{
				{Kind: "cmp", Fn: "neterr", Op: ">", FLit: 0.5},
				{Kind: "cmp", Fn: "coderatio", Args: [4]int{500, 600, 0, 600}, Op: ">=", FLit: 0.5},
				{Kind: "cmp", Fn: "coderatio", Args: [4]int{500, 600, 200, 300}, Op: ">", FLit: 1},
			})
		}
		var choose cbStepChooser
		steps := 60 + r.IntN(c.N(240, 400))
		switch prop {
		case "C05":
			choose = cbChooser(8, 5, 4, 3, false)
		case "C12":
			base := cbChooser(4, 6, 3, 4, true)
			burstLeft := 0
			choose = func(r *rand.Rand, m *cbModel, inflight []int, now time.Time, step int) (string, int, time.Duration) {
				if m.state == "recovering" {
					if burstLeft > 0 {
						burstLeft--
						return "arrive", 0, 0
					}
					switch r.IntN(10) {
					case 0:
						burstLeft = 1 + r.IntN(200)
						return "arrive", 0, 0
					case 1: // trickle step
						return "advance", 0, time.Duration(int64(m.cfg.Recovery) / int64(pick(r, []int{1000, 100, 10, 3})))
					case 2: // complete admitted ones with success (keeps most conditions false)
						if len(inflight) > 0 {
							return "complete", r.IntN(64), 1 // status index 1 = 200
						}
					}
				}
				op, a, d := base(r, m, inflight, now, step)
				if op == "arrive" && len(inflight) >= 200 {
					return "advance", 0, time.Millisecond
				}
				return op, a, d
			}
			steps += 300
		default:
			choose = cbChooser(6, 5, 5, 3, false)
			steps += 150
		}
		if prop == "C18" && i%6 == 1 {
			// long-epoch latency shape: more than a minute of slow but healthy traffic (the rolling histogram wraps),
			// then slow failures trip the breaker, then fast failures after the trip: the latency leaf must be
			// evaluated over the responses recorded since the trip only
			cfg.Cond = &condNode{Kind: "and",
				L: &condNode{Kind: "cmp", Fn: "latency", Q: pick(r, []float64{50, 90}), Op: ">", ILit: pick(r, []int{50, 100})},
				R: &condNode{Kind: "cmp", Fn: "coderatio", Args: [4]int{500, 600, 0, 600}, Op: ">", FLit: 0.5}}
			cfg.CheckPeriod = pick(r, []time.Duration{0, 100 * time.Millisecond})
			choose = c18LongEpochChooser(time.Duration(65+r.IntN(70)) * time.Second)
			steps = 900
		}
		st, script, mm, err := cbRun(r, cfg, steps, choose, func(mm *cbMismatch) bool { return cbBelongs(prop, mm) })
		c.Eval()
		if err != nil {
			c.Violation("constructor", sfmt("cbreaker.New rejected a generated condition %q: %v", cfg.Cond.String(), err), nil)
			return
		}
		c.Count("steps", int64(st.steps))
		c.Count("arrivals", int64(st.arrivals))
		c.Count("completions", int64(st.completions))
		c.Count("trips_observed", int64(st.trips))
		c.Count("returns_to_standby", int64(st.standbys))
		c.Count("ramp_decisions_compared", int64(st.rampDecisions-st.rampAmbiguous))
		c.Count("ramp_decisions_ambiguous_float_equality", int64(st.rampAmbiguous))
		c.Count("evaluations_decided", int64(st.evals-st.evalAmbiguous))
		c.Count("evaluations_ambiguous", int64(st.evalAmbiguous))
		c.Count("ambiguous_window_9_10s", int64(st.cs.ambigWindow))
		c.Count("ambiguous_latency_precision", int64(st.cs.ambigLatency))
		c.Count("ambiguous_latency_rank0", int64(st.cs.ambigRank0))
		c.Count("completions_at_last_check_instant", int64(st.sameInstantChecks))
		c.Count("requests_in_flight_across_a_trip", int64(st.inFlightAcrossTrip))
		c.Max("max_in_flight", int64(st.maxInFlight))
		desc := map[string]any{"condition": cfg.Cond.String(), "fallback": cfg.Fallback.String(), "recovery": cfg.Recovery.String(), "check_period": cfg.CheckPeriod.String(), "script_tail": script[max(0, len(script)-60):]}
		if mm != nil {
			if cbBelongs(prop, mm) {
				key := mm.Cat
				if mm.Cat == "trip" {
					if strings.Contains(mm.Msg, "breaker stayed") {
						key = "trip/missed"
					} else {
						key = "trip/spurious"
					}
				}
				c.Violation(key, strings.TrimSuffix(strings.TrimSuffix(mm.Msg, "|recovering=true"), "|recovering=false"), desc)
			} else {
				c.Count("runs_ended_by_mismatch_of_another_property", 1)
			}
			return
		}
		nontrivial := false
		switch prop {
		case "C05":
			nontrivial = st.trips >= 1 && st.inFlightAcrossTrip >= 1
		case "C12":
			nontrivial = st.passedWhileRecovering >= 1 && st.refusedWhileRecovering >= 1
		case "C18":
			nontrivial = st.trips >= 1 && st.evals-st.evalAmbiguous > st.trips
		}
		if nontrivial {
			c.Nontrivial(sfmt("%s/%v/%x", prop, desc["condition"], hash64(strings.Join(script, ";"))))
			c.Count("scripts_nontrivial", 1)
		}
		if i < 2 {
			desc["script_tail"] = script[:min(len(script), 25)]
			c.Sample(desc)
		}
	})
	c.Require("scripts_nontrivial", 2)
	c.Require("trips_observed", 1)
}

// ---------- free-running supplements (race build, frozen instants) ----------

type freeBreaker struct {
	cb        *cbreaker.CircuitBreaker
	handled   atomic.Int64
	fell      atomic.Int64
	status    atomic.Int64
	onTripped *countEffect
	onStandby *countEffect
}

func newFreeBreaker(cond string, fb, rec, cp time.Duration) *freeBreaker {
	f := &freeBreaker{onTripped: &countEffect{}, onStandby: &countEffect{}}
	f.status.Store(502)
	h := http.HandlerFunc(func(w http.ResponseWriter, req *http.Request) {
		f.handled.Add(1)
		w.WriteHeader(int(f.status.Load()))
	})
	fbh := http.HandlerFunc(func(w http.ResponseWriter, req *http.Request) {
		f.fell.Add(1)
		w.WriteHeader(503)
	})
	cb, err := cbreaker.New(h, cond, cbreaker.FallbackDuration(fb), cbreaker.RecoveryDuration(rec), cbreaker.CheckPeriod(cp), cbreaker.Fallback(fbh), cbreaker.OnTripped(f.onTripped), cbreaker.OnStandby(f.onStandby))
	if err != nil {
		panic(err)
	}
	f.cb = cb
	return f
}

type freeObs struct {
	start, end int64
	fallback   bool
}

// burst sends n requests from g goroutines at the current frozen instant and returns the per-request observations.
func (f *freeBreaker) burst(clk *atomic.Int64, g, n int) []freeObs {
	var mu sync.Mutex
	var out []freeObs
	var wg sync.WaitGroup
	var issued atomic.Int64
	startCh := make(chan struct{})
	for i := 0; i < g; i++ {
		wg.Add(1)
		go func() {
			defer wg.Done()
			<-startCh
			var local []freeObs
			for issued.Add(1) <= int64(n) {
				rec := httptest.NewRecorder()
				s := clk.Add(1)
				f.cb.ServeHTTP(rec, httptest.NewRequest("GET", "http://x.test/", nil))
				e := clk.Add(1)
				local = append(local, freeObs{s, e, rec.Code == 503})
			}
			mu.Lock()
			out = append(out, local...)
			mu.Unlock()
		}()
	}
	close(startCh)
	// a burst takes milliseconds; requests that do not come back are blocked inside the breaker
	done := make(chan struct{})
	go func() { wg.Wait(); close(done) }()
	select {
	case <-done:
	case <-time.After(3 * cbHangTimeout):
		cbBurstHung.Store(true)
		cbHangTimeout = 2 * time.Second
		return nil
	}
	return out
}

// cbBurstHung: a burst of concurrent requests at a frozen instant did not come back (reported by the calling part).
var cbBurstHung atomic.Bool

func cbBurstHang(c *Ctx) bool {
	if cbBurstHung.Load() {
		c.Violation("hang", sfmt("a burst of concurrent requests at one frozen instant did not return within %v: requests are blocked inside the breaker (deadlock)", 60*time.Second), nil)
		cbBurstHung.Store(false)
		return true
	}
	return false
}

func c05Free(c *Ctx) {
	c.Cases("free", c.N(120, 3000), func(i int, r *rand.Rand) {
		fb := pick(r, []time.Duration{time.Second, 2 * time.Second})
		freeze(baseTime.Add(time.Duration(r.Int64N(1e9))))
		defer unfreeze()
		f := newFreeBreaker("NetworkErrorRatio() > 0.5", fb, time.Second, pick(r, []time.Duration{0, 100 * time.Millisecond}))
		var clk atomic.Int64
		rounds := 2 + r.IntN(3)
		for round := 0; round < rounds; round++ {
			f.status.Store(502)
			obs := f.burst(&clk, 8, 100+r.IntN(300))
			if cbBurstHang(c) {
				return
			}
			c.Count("free_requests", int64(len(obs)))
			firstFallbackEnd := int64(1 << 62)
			nf := 0
			for _, o := range obs {
				if o.fallback {
					nf++
					if o.end < firstFallbackEnd {
						firstFallbackEnd = o.end
					}
				}
			}
			if nf == 0 {
				c.Violation("shield", sfmt("round %d: %d failing responses at one instant with condition NetworkErrorRatio() > 0.5 never tripped the breaker", round, len(obs)), nil)
				return
			}
			late := 0
			for _, o := range obs {
				if o.start > firstFallbackEnd {
					late++
					if !o.fallback {
						c.Violation("shield", sfmt("round %d: a request that started (stamp %d) after a fallback answer had already returned (stamp %d), at the same frozen instant inside the fallback period, reached the protected handler", round, o.start, firstFallbackEnd), nil)
						return
					}
				}
			}
			c.Count("free_requests_started_after_first_fallback", int64(late))
			// move beyond fallback + recovery with healthy responses so the next round starts from standby
			f.status.Store(200)
			advance(fb + 1)
			for k := 0; k < 50; k++ {
				advance(25 * time.Millisecond)
				f.cb.ServeHTTP(httptest.NewRecorder(), httptest.NewRequest("GET", "http://x.test/", nil))
			}
			if s, _, _ := (&cbDriver{cb: f.cb}).observe(); s != "standby" {
				c.Count("free_rounds_not_back_in_standby", 1)
				break
			}
			advance(11 * time.Second) // everything recorded so far ages out of the 10s window before the next round
		}
		c.Eval()
		c.Nontrivial(sfmt("c05free/%v/%d/%d", fb, rounds, i))
		c.Count("free_nontrivial", 1)
	})
	c.Require("free_nontrivial", 2)
	c.Require("free_requests_started_after_first_fallback", 1)
}

// greedyRamp returns how many of n arrivals at elapsed e of duration D the ramp admits (lo/hi for float-equality ambiguity).
func greedyRamp(n int, e, D time.Duration) (lo, hi int64) {
	m := &cbModel{cfg: cbConfig{Recovery: D}}
	m.rcStart = baseTime
	t := baseTime.Add(e)
	var a, d, amb int64
	for i := 0; i < n; i++ {
		m.a, m.d = a, d
		switch m.rampDecision(t) {
		case 1:
			a++
		case 0:
			d++
		default:
			amb++
			d++
		}
	}
	if amb > 0 {
		return -1, -1
	}
	return a, a
}

func c12FreeRamp(c *Ctx) {
	c.Cases("freeramp", c.N(250, 6000), func(i int, r *rand.Rand) {
		fb := time.Second
		D := pick(r, []time.Duration{time.Second, 2 * time.Second, 4 * time.Second})
		freeze(baseTime.Add(time.Duration(r.Int64N(1e9))))
		defer unfreeze()
		f := newFreeBreaker("NetworkErrorRatio() > 0.5", fb, D, 0)
		var clk atomic.Int64
		f.burst(&clk, 1, 3) // trips at the first completion
		if cbBurstHang(c) {
			return
		}
		if f.fell.Load() == 0 {
			c.Violation("trip/missed", "failing responses never tripped the breaker (C18's concern; run skipped)", nil)
			return
		}
		f.status.Store(200)
		advance(fb)
		// first arrival at exactly 'until' starts the recovery (elapsed 0 => refused)
		f.cb.ServeHTTP(httptest.NewRecorder(), httptest.NewRequest("GET", "http://x.test/", nil))
		e := time.Duration(r.Int64N(int64(D))) + 1
		if r.IntN(5) == 0 {
			e = D
		}
		advance(e)
		h0, f0 := f.handled.Load(), f.fell.Load()
		n := 1 + r.IntN(400)
		// the recovery's own first arrival (refused at elapsed 0) counts as one denied
		m := &cbModel{cfg: cbConfig{Recovery: D}, rcStart: baseTime}
		t := baseTime.Add(e)
		var a, d int64 = 0, 1
		amb := false
		for k := 0; k < n; k++ {
			m.a, m.d = a, d
			switch m.rampDecision(t) {
			case 1:
				a++
			case 0:
				d++
			default:
				amb = true
			}
			if amb {
				break
			}
		}
		obs := f.burst(&clk, 8, n)
		c.Eval()
		if cbBurstHang(c) {
			return
		}
		passed, refused := f.handled.Load()-h0, f.fell.Load()-f0
		c.Count("freeramp_arrivals", int64(len(obs)))
		if amb {
			c.Count("freeramp_ambiguous", 1)
			return
		}
		if passed != a || refused != d-1 {
			c.Violation("ramp", sfmt("%d concurrent arrivals at elapsed %v of a %v recovery: %d passed / %d refused; the ramp 0.5*elapsed/duration admits exactly %d of them whatever their order", n, e, D, passed, refused, a), nil)
			return
		}
		if a > 0 && d > 1 {
			c.Nontrivial(sfmt("freeramp/%v/%v/%d", D, e, n))
			c.Count("freeramp_nontrivial", 1)
		}
	})
	c.Require("freeramp_nontrivial", 2)
}

func c18FreeTrip(c *Ctx) {
	c.Cases("freetrip", c.N(200, 5000), func(i int, r *rand.Rand) {
		fb := pick(r, []time.Duration{time.Second, 2 * time.Second})
		freeze(baseTime.Add(time.Duration(r.Int64N(1e9))))
		defer unfreeze()
		cp := pick(r, []time.Duration{0, 100 * time.Millisecond, time.Second})
		f := newFreeBreaker(pick(r, []string{"NetworkErrorRatio() > 0.5", "ResponseCodeRatio(500, 600, 0, 600) >= 0.5"}), fb, time.Second, cp)
		var clk atomic.Int64
		cycles := 1 + r.IntN(4)
		wantTrips, wantStandbys := int64(0), int64(0)
		for k := 0; k < cycles; k++ {
			f.status.Store(502)
			f.burst(&clk, 8, 50+r.IntN(200)) // overlapping failing completions at one instant
			if cbBurstHang(c) {
				return
			}
			wantTrips++
			if s, _, _ := (&cbDriver{cb: f.cb}).observe(); s != "tripped" {
				c.Violation("trip/missed", sfmt("cycle %d: concurrent failing responses did not leave the breaker tripped (state %s)", k, s), nil)
				return
			}
			f.status.Store(200)
			// failing requests that were already in flight at the trip are recorded after it (legitimately "since the
			// last trip"); let them age out so that the recovery below sees healthy traffic only
			advance(fb + 11*time.Second)
			f.cb.ServeHTTP(httptest.NewRecorder(), httptest.NewRequest("GET", "http://x.test/", nil)) // -> recovering
			advance(time.Second + 1)
			f.burst(&clk, 4, 20) // first of them returns the breaker to standby
			wantStandbys++
			s, _, _ := (&cbDriver{cb: f.cb}).observe()
			if s == "tripped" {
				c.Violation("trip/spurious", sfmt("cycle %d: after the fallback and recovery periods, with only successful responses recorded since the trip, the breaker tripped again (stale failures were not cleared)", k), nil)
				return
			}
			if s != "standby" {
				c.Count("freetrip_cycles_not_back_in_standby", 1)
				return
			}
			advance(cp + 11*time.Second) // the healthy samples age out before the next cycle's failures
		}
		c.Eval()
		deadline := time.Now().Add(20 * time.Second)
		for time.Now().Before(deadline) && (f.onTripped.n.Load() < wantTrips || f.onStandby.n.Load() < wantStandbys) {
			time.Sleep(200 * time.Microsecond)
		}
		time.Sleep(2 * time.Millisecond)
		if a, b := f.onTripped.n.Load(), f.onStandby.n.Load(); a != wantTrips || b != wantStandbys {
			c.Violation("effects", sfmt("%d trip/recover cycles with concurrent completions: on-tripped ran %d times, on-standby %d times (expected %d and %d)", cycles, a, b, wantTrips, wantStandbys), nil)
			return
		}
		c.Count("freetrip_cycles", int64(cycles))
		c.Nontrivial(sfmt("freetrip/%v/%v/%d/%d", fb, cp, cycles, i))
	})
	c.Require("freetrip_cycles", 2)
}

// c18LongEpochChooser: phase A slow healthy traffic for epochA, phase B slow failures until the trip,
// phase C fast failures through recovery and after.
func c18LongEpochChooser(epochA time.Duration) cbStepChooser {
	var t0 time.Time
	pendingSlow := false
	tripped := false
	return func(r *rand.Rand, m *cbModel, inflight []int, now time.Time, step int) (string, int, time.Duration) {
		if t0.IsZero() {
			t0 = now
		}
		if m.state != "standby" {
			tripped = true
		}
		phaseA := now.Sub(t0) < epochA && !tripped
		if !tripped {
			// slow request: arrive, advance 150-300ms, complete (200 in phase A, 500 in phase B)
			if len(inflight) == 0 {
				pendingSlow = true
				return "arrive", 0, 0
			}
			if pendingSlow {
				pendingSlow = false
				return "advance", 0, time.Duration(150+r.IntN(150)) * time.Millisecond
			}
			if r.IntN(3) == 0 && phaseA {
				return "advance", 0, time.Duration(r.Int64N(int64(3 * time.Second)))
			}
			if phaseA {
				return "complete", 0, 1 // 200
			}
			return "complete", 0, 5 // 500
		}
		// phase C: fast failing traffic; let the fallback and recovery periods pass
		switch {
		case len(inflight) > 0 && r.IntN(2) == 0:
			if r.IntN(2) == 0 {
				return "advance", 0, time.Duration(1+r.IntN(4)) * time.Millisecond
			}
			return "complete", r.IntN(8), 5
		case m.state == "tripped" && r.IntN(3) == 0:
			d := m.until.Sub(now)
			if d < 0 {
				d = 0
			}
			return "advance", 0, d + time.Duration(r.IntN(2))
		case m.state == "recovering" && r.IntN(3) == 0:
			return "advance", 0, time.Duration(r.Int64N(int64(m.cfg.Recovery)/3 + 1))
		case len(inflight) < 3:
			return "arrive", 0, 0
		}
		return "complete", r.IntN(8), 5
	}
}

// yieldLogger is a user-supplied utils.Logger: it records the state changes the breaker announces
// ("... setting state to X") in the order they are made, and yields / briefly sleeps inside every log call,
// widening whatever window exists around the library's own logging points.
type yieldLogger struct {
	mu     sync.Mutex
	states []string
	seed   atomic.Uint64
}

func (l *yieldLogger) stall() {
	x := l.seed.Add(0x9e3779b97f4a7c15)
	x ^= x >> 29
	for i := uint64(0); i < x%4; i++ {
		runtime.Gosched()
	}
	if x%7 == 0 {
		time.Sleep(time.Duration(50+x%400) * time.Microsecond)
	}
}
func (l *yieldLogger) Debug(msg string, args ...any) {
	if strings.Contains(msg, "setting state to") && len(args) >= 2 {
		st := sfmt("%v", args[1])
		l.mu.Lock()
		l.states = append(l.states, st)
		l.mu.Unlock()
	}
	l.stall()
}
func (l *yieldLogger) Info(string, ...any)  { l.stall() }
func (l *yieldLogger) Warn(string, ...any)  { l.stall() }
func (l *yieldLogger) Error(string, ...any) { l.stall() }

// cbCycleRun drives one breaker from 8 goroutines while a ticker advances the frozen clock and flips the backend
// between failing and healthy; the breaker's own Logger output gives the totally ordered sequence of state changes.
// cbCycleHung is set when requests stopped completing for cbHangTimeout of real time (all of them blocked inside the breaker).
var cbCycleHung atomic.Bool

func cbCycleRun(c *Ctx, i int, r *rand.Rand) (seq []string, onTripped, onStandby int64, fb, rec time.Duration, total int) {
	fb = pick(r, []time.Duration{500 * time.Millisecond, time.Second})
	rec = pick(r, []time.Duration{500 * time.Millisecond, time.Second})
	freeze(baseTime.Add(time.Duration(r.Int64N(1e9))))
	defer unfreeze()
	lg := &yieldLogger{}
	lg.seed.Store(r.Uint64())
	var failing atomic.Bool
	failing.Store(true)
	h := http.HandlerFunc(func(w http.ResponseWriter, req *http.Request) {
		if failing.Load() {
			w.WriteHeader(502)
		}
	})
	fbh := http.HandlerFunc(func(w http.ResponseWriter, req *http.Request) { w.WriteHeader(503) })
	on, off := &countEffect{}, &countEffect{}
	cb, err := cbreaker.New(h, "NetworkErrorRatio() > 0.5", cbreaker.FallbackDuration(fb), cbreaker.RecoveryDuration(rec), cbreaker.CheckPeriod(pick(r, []time.Duration{0, time.Nanosecond, time.Microsecond})),
		cbreaker.Fallback(fbh), cbreaker.Logger(lg), cbreaker.OnTripped(on), cbreaker.OnStandby(off))
	if err != nil {
		panic(err)
	}
	var stop atomic.Bool
	var wg sync.WaitGroup
	total = 1500 + r.IntN(c.N(1500, 4000))
	var issued, completed atomic.Int64
	for g := 0; g < 8; g++ {
		wg.Add(1)
		go func() {
			defer wg.Done()
			for issued.Add(1) <= int64(total) {
				cb.ServeHTTP(httptest.NewRecorder(), httptest.NewRequest("GET", "http://x.test/", nil))
				completed.Add(1)
			}
		}()
	}
	wg.Add(1)
	go func() {
		defer wg.Done()
		tr := rand.New(rand.NewPCG(uint64(i), 99))
		for !stop.Load() {
			advance(time.Duration(tr.Int64N(int64(fb / 2))))
			if tr.IntN(40) == 0 {
				failing.Store(!failing.Load())
			}
			if tr.IntN(25) == 0 {
				advance(11 * time.Second)
			}
			time.Sleep(time.Duration(20+tr.IntN(60)) * time.Microsecond)
			if issued.Load() > int64(total) {
				return
			}
		}
	}()
	// progress watchdog: no request completing for cbHangTimeout of real time while some are outstanding = a hang
	allDone := make(chan struct{})
	go func() { wg.Wait(); close(allDone) }()
	last, lastAt := int64(-1), time.Now()
wait:
	for {
		select {
		case <-allDone:
			break wait
		case <-time.After(100 * time.Millisecond):
			if n := completed.Load(); n != last {
				last, lastAt = n, time.Now()
			} else if time.Since(lastAt) > cbHangTimeout {
				cbCycleHung.Store(true)
				stop.Store(true)
				c.Violation("hang", sfmt("fallback %v recovery %v: 8 goroutines sending requests while the clock advances: after %d completed requests none has returned for %v: every request is blocked inside the breaker (deadlock)", fb, rec, last, cbHangTimeout), nil)
				cbHangTimeout = 2 * time.Second
				return
			}
		}
	}
	stop.Store(true)
	lg.mu.Lock()
	seq = append([]string(nil), lg.states...)
	lg.mu.Unlock()
	// side effects run in their own goroutines: bounded wait until the counts stop short of the announced changes
	wantT, wantS := int64(0), int64(0)
	prev := "standby"
	for _, st := range seq {
		if st != prev {
			if st == "tripped" {
				wantT++
			}
			if st == "standby" {
				wantS++
			}
		}
		prev = st
	}
	deadline := time.Now().Add(20 * time.Second)
	for time.Now().Before(deadline) && (on.n.Load() < wantT || off.n.Load() < wantS) {
		time.Sleep(200 * time.Microsecond)
	}
	time.Sleep(2 * time.Millisecond)
	return seq, on.n.Load(), off.n.Load(), fb, rec, total
}

func c05Cycle(c *Ctx) {
	c.Cases("cycle", c.N(24, 800), func(i int, r *rand.Rand) {
		seq, _, _, fb, rec, total := cbCycleRun(c, i, r)
		c.Eval()
		if cbCycleHung.Load() {
			return
		}
		c.Count("cycle_requests", int64(total))
		c.Count("cycle_state_changes_observed", int64(len(seq)))
		legal := map[string]map[string]bool{"standby": {"tripped": true}, "tripped": {"recovering": true}, "recovering": {"standby": true, "tripped": true}}
		prev := "standby"
		for k, st := range seq {
			if !legal[prev][st] {
				c.Violation("transition", sfmt("fallback %v recovery %v: the breaker announced the state change %s -> %s (change %d of %d: ...%v); only standby -> tripped -> recovering -> (standby|tripped) is allowed", fb, rec, prev, st, k, len(seq), seq[max(0, k-4):min(len(seq), k+2)]), nil)
				return
			}
			prev = st
		}
		if len(seq) >= 4 {
			c.Nontrivial(sfmt("cycle/%v/%v/%d/%d", fb, rec, len(seq), i))
			c.Count("cycle_nontrivial", 1)
		}
	})
	c.Require("cycle_nontrivial", 2)
}

// c18CycleEffects: same workload; the side effects must have run exactly once per state change into tripped / standby.
func c18CycleEffects(c *Ctx) {
	c.Cases("cycleeffects", c.N(24, 800), func(i int, r *rand.Rand) {
		seq, gotT, gotS, fb, rec, total := cbCycleRun(c, i, r)
		c.Eval()
		if cbCycleHung.Load() {
			return
		}
		c.Count("cycle_requests", int64(total))
		wantT, wantS := int64(0), int64(0)
		prev := "standby"
		for _, st := range seq {
			if st != prev {
				if st == "tripped" {
					wantT++
				}
				if st == "standby" {
					wantS++
				}
			}
			prev = st
		}
		c.Count("cycle_transitions_into_tripped", wantT)
		c.Count("cycle_transitions_into_standby", wantS)
		if gotT != wantT || gotS != wantS {
			c.Violation("effects", sfmt("fallback %v recovery %v, %d requests from 8 goroutines with the clock advancing: the breaker changed state into tripped %d times and into standby %d times, but on-tripped ran %d times and on-standby %d times", fb, rec, total, wantT, wantS, gotT, gotS), map[string]any{"announced_states_tail": seq[max(0, len(seq)-12):]})
			return
		}
		if wantT >= 2 {
			c.Nontrivial(sfmt("cycleeffects/%v/%v/%d/%d", fb, rec, len(seq), i))
			c.Count("cycleeffects_nontrivial", 1)
		}
	})
	c.Require("cycleeffects_nontrivial", 2)
}

// c12LongRamp: recovery periods of hours with hundreds of thousands of arrivals (bursts and long idle gaps): every
// decision is compared with the exact ramp (128-bit integer arithmetic), sequentially, without controlled handlers.
func c12LongRamp(c *Ctx) {
	c.Cases("longramp", c.N(8, 150), func(i int, r *rand.Rand) {
		D := pick(r, []time.Duration{6 * time.Hour, 24 * time.Hour, 72 * time.Hour, 24 * time.Hour, 10 * time.Minute})
		fb := time.Second
		freeze(baseTime.Add(time.Duration(r.Int64N(1e9))))
		defer unfreeze()
		f := newFreeBreaker("NetworkErrorRatio() > 0.5", fb, D, time.Second)
		serve := func() bool { // true: reached the handler
			h0 := f.handled.Load()
			f.cb.ServeHTTP(httptest.NewRecorder(), httptest.NewRequest("GET", "http://x.test/", nil))
			return f.handled.Load() != h0
		}
		serve() // 502: trips at the first completion
		if s, _, _ := (&cbDriver{cb: f.cb}).observe(); s != "tripped" {
			return
		}
		f.status.Store(200)
		advance(fb)
		m := &cbModel{cfg: cbConfig{Recovery: D}, rcStart: now()}
		total := c.N(300000, 1500000) + r.IntN(100000)
		done, amb := 0, 0
		for done < total {
			// a burst at one instant, then a gap
			burst := 1 + r.IntN(60000)
			t := now()
			if t.Sub(m.rcStart) > D {
				break
			}
			for k := 0; k < burst && done < total; k++ {
				want := m.rampDecision(t)
				got := serve()
				done++
				if want == -1 {
					amb++
				} else if got != (want == 1) {
					c.Violation("ramp", sfmt("recovery %v: arrival %d at elapsed %v with %d passed / %d refused so far: breaker %s it, the ramp 0.5*elapsed/duration says %s", D, done, t.Sub(m.rcStart), m.a, m.d,
						map[bool]string{true: "passed", false: "refused"}[got], map[bool]string{true: "pass", false: "refuse"}[want == 1]), nil)
					return
				}
				if got {
					m.a++
				} else {
					m.d++
				}
			}
			var gap time.Duration
			switch r.IntN(4) {
			case 0:
				gap = time.Duration(r.Int64N(int64(D) / 3))
			case 1:
				gap = time.Duration(r.Int64N(int64(time.Second)))
			default:
				gap = time.Duration(r.Int64N(int64(D) / 200))
			}
			advance(gap)
		}
		c.Eval()
		c.Count("longramp_decisions_compared", int64(done-amb))
		c.Count("longramp_decisions_ambiguous", int64(amb))
		if m.a > 0 && m.d > 0 {
			c.Nontrivial(sfmt("longramp/%v/%d/%d/%d", D, done, m.a, i))
			c.Count("longramp_nontrivial", 1)
		}
	})
	c.Require("longramp_nontrivial", 2)
}

// c12EndBurst: the end of the recovery period under concurrency. Trip, wait out the fallback period, enter recovery, move
// the frozen clock past the end of the recovery period with a healthy backend, then release a burst of requests at that
// one instant: whatever the interleaving, each of them finds (or makes) the breaker standby and is passed to the handler,
// none is left hanging, and the traffic after it passes as well.
func c12EndBurst(c *Ctx) {
	c.Cases("endburst", c.N(400, 8000), func(i int, r *rand.Rand) {
		fb := pick(r, []time.Duration{500 * time.Millisecond, time.Second})
		rec := pick(r, []time.Duration{500 * time.Millisecond, time.Second, 4 * time.Second})
		freeze(baseTime.Add(time.Duration(r.Int64N(1e9))))
		defer unfreeze()
		var status atomic.Int64
		status.Store(502)
		var handled atomic.Int64
		h := http.HandlerFunc(func(w http.ResponseWriter, req *http.Request) {
			handled.Add(1)
			w.WriteHeader(int(status.Load()))
		})
		fbh := http.HandlerFunc(func(w http.ResponseWriter, req *http.Request) { w.WriteHeader(503) })
		lg := &yieldLogger{}
		lg.seed.Store(r.Uint64())
		opts := []cbreaker.Option{cbreaker.FallbackDuration(fb), cbreaker.RecoveryDuration(rec), cbreaker.CheckPeriod(time.Second), cbreaker.Fallback(fbh)}
		switch i % 3 {
		case 0:
			opts = append(opts, cbreaker.Logger(lg))
		case 1:
			// a Logger whose warnings take a while (a log sink under load): the breaker logs a warning while it decides
			// about a request in a non-standby state, so the other requests of the burst queue up behind that decision
			opts = append(opts, cbreaker.Logger(slowWarnLogger{200 * time.Microsecond}))
		}
		cb, err := cbreaker.New(h, "NetworkErrorRatio() > 0.5", opts...)
		if err != nil {
			panic(err)
		}
		d := &cbDriver{cb: cb}
		serve := func() int {
			rec := httptest.NewRecorder()
			cb.ServeHTTP(rec, httptest.NewRequest("GET", "http://x.test/", nil))
			return rec.Code
		}
		serve() // 502: trips at the first completion
		if s, _, _ := d.observe(); s != "tripped" {
			c.Count("endburst_setup_not_tripped", 1)
			return
		}
		status.Store(200)
		advance(fb + time.Duration(r.IntN(3)))
		serve() // the arrival that starts the recovery period
		if s, _, _ := d.observe(); s != "recovering" {
			c.Count("endburst_setup_not_recovering", 1)
			return
		}
		advance(rec + time.Duration(1+r.IntN(1000)))
		G := 2 + r.IntN(7)
		codes := make([]int, G)
		// spinning barrier: the requests enter the breaker within nanoseconds of each other
		var start atomic.Bool
		var wg sync.WaitGroup
		var ready atomic.Int64
		for g := 0; g < G; g++ {
			wg.Add(1)
			go func(g int) {
				defer wg.Done()
				ready.Add(1)
				for !start.Load() {
				}
				codes[g] = serve()
			}(g)
		}
		for ready.Load() < int64(G) {
			runtime.Gosched()
		}
		start.Store(true)
		done := make(chan struct{})
		go func() { wg.Wait(); close(done) }()
		select {
		case <-done:
		case <-time.After(cbHangTimeout):
			c.Eval()
			c.Violation("recovery-end/hang", sfmt("fallback %v recovery %v: %d requests released together just after the end of the recovery period (healthy backend): not all of them returned within %v: requests are blocked inside the breaker", fb, rec, G, cbHangTimeout), nil)
			cbHangTimeout = 2 * time.Second
			return
		}
		c.Eval()
		c.Count("endburst_requests", int64(G))
		for g, code := range codes {
			if code != 200 {
				c.Violation("recovery-end/refused", sfmt("fallback %v recovery %v: request %d of %d released just after the end of the recovery period got status %d instead of being passed to the (healthy) handler", fb, rec, g, G, code), nil)
				return
			}
		}
		if s, _, _ := d.observe(); s != "standby" {
			c.Violation("recovery-end/state", sfmt("after the first requests past the recovery period the breaker is %s, not standby", s), nil)
			return
		}
		after := make(chan int, 1)
		go func() { after <- serve() }()
		select {
		case code := <-after:
			if code != 200 {
				c.Violation("recovery-end/refused", sfmt("a request after the breaker returned to standby got status %d", code), nil)
				return
			}
		case <-time.After(cbHangTimeout):
			c.Violation("recovery-end/hang", sfmt("fallback %v recovery %v: after %d requests released together at the end of the recovery period, the next request did not return within %v (blocked inside the breaker)", fb, rec, G, cbHangTimeout), nil)
			cbHangTimeout = 2 * time.Second
			return
		}
		c.Nontrivial(sfmt("endburst/%v/%v/%d/%d", fb, rec, G, i))
		c.Count("endburst_nontrivial", 1)
	})
	c.Require("endburst_nontrivial", 2)
}

// c05LongFallback: fallback durations from hours up to the largest duration (the idiom for "stay tripped until someone
// resets it"): after the trip every arrival, however far the clock is advanced short of the deadline, gets the fallback.
func c05LongFallback(c *Ctx) {
	c.Cases("longfallback", c.N(200, 4000), func(i int, r *rand.Rand) {
		fb := pick(r, []time.Duration{time.Hour, 1000 * time.Hour, 100 * 365 * 24 * time.Hour, 250 * 365 * 24 * time.Hour, time.Duration(1<<63 - 1)})
		freeze(baseTime.Add(time.Duration(r.Int64N(1e9))))
		defer unfreeze()
		f := newFreeBreaker("NetworkErrorRatio() > 0.5", fb, time.Second, pick(r, []time.Duration{0, time.Second}))
		wantFallback := http.StatusServiceUnavailable
		if i%3 == 0 {
			// the library's own ResponseFallback, configured with a status and no body
			wantFallback = pick(r, []int{http.StatusTooManyRequests, http.StatusBadGateway, 299})
			rf, err := cbreaker.NewResponseFallback(cbreaker.Response{StatusCode: wantFallback})
			if err != nil {
				panic(err)
			}
			cb, err := cbreaker.New(http.HandlerFunc(func(w http.ResponseWriter, req *http.Request) {
				f.handled.Add(1)
				w.WriteHeader(int(f.status.Load()))
			}), "NetworkErrorRatio() > 0.5", cbreaker.FallbackDuration(fb), cbreaker.RecoveryDuration(time.Second), cbreaker.CheckPeriod(0), cbreaker.Fallback(rf))
			if err != nil {
				panic(err)
			}
			f.cb = cb
			c.Count("longfallback_with_library_response_fallback", 1)
		}
		wantLocation := func(path string) string { return "" }
		if i%3 == 1 {
			// the library's own RedirectFallback, with and without the request path appended to its target
			target := pick(r, []string{"http://standby.test/maintenance", "https://standby.test:8443", "http://standby.test/a/b"})
			preserve := r.IntN(3) != 0
			wantFallback = http.StatusFound
			wantLocation = func(path string) string {
				if preserve {
					return target + path
				}
				return target
			}
			rf, err := cbreaker.NewRedirectFallback(cbreaker.Redirect{URL: target, PreservePath: preserve})
			if err != nil {
				panic(err)
			}
			cb, err := cbreaker.New(http.HandlerFunc(func(w http.ResponseWriter, req *http.Request) {
				f.handled.Add(1)
				w.WriteHeader(int(f.status.Load()))
			}), "NetworkErrorRatio() > 0.5", cbreaker.FallbackDuration(fb), cbreaker.RecoveryDuration(time.Second), cbreaker.CheckPeriod(0), cbreaker.Fallback(rf))
			if err != nil {
				panic(err)
			}
			f.cb = cb
			c.Count("longfallback_with_library_redirect_fallback", 1)
		}
		lastCode := 0
		lastLocation, lastPath := "", ""
		nServed := 0
		serve := func() bool { // true: reached the handler
			h0 := f.handled.Load()
			rec := httptest.NewRecorder()
			nServed++
			lastPath = sfmt("/r%d/item", nServed)
			f.cb.ServeHTTP(rec, httptest.NewRequest("GET", "http://x.test"+lastPath, nil))
			lastCode = rec.Code
			lastLocation = rec.Header().Get("Location")
			return f.handled.Load() != h0
		}
		serve() // 502: trips at the first completion
		d := &cbDriver{cb: f.cb}
		if s, _, _ := d.observe(); s != "tripped" {
			c.Violation("until-tripped", sfmt("fallback %v: a failing response with NetworkErrorRatio() > 0.5 left the breaker %s", fb, s), nil)
			return
		}
		f.status.Store(200)
		var elapsed time.Duration
		n := 5 + r.IntN(20)
		for k := 0; k < n; k++ {
			step := time.Duration(r.Int64N(int64(min(fb/8, 20*365*24*time.Hour)) + 1))
			if r.IntN(3) == 0 {
				step = time.Duration(r.Int64N(int64(time.Minute)))
			}
			if elapsed+step >= fb {
				break
			}
			advance(step)
			elapsed += step
			c.Count("longfallback_arrivals", 1)
			if serve() {
				c.Eval()
				c.Violation("shield", sfmt("fallback duration %v: a request arriving %v after the trip was passed to the protected handler", fb, elapsed), nil)
				return
			}
			if lastCode != wantFallback {
				c.Eval()
				c.Violation("shield/answer", sfmt("fallback duration %v: a request arriving %v after the trip was not passed on, but it was answered %d; the configured fallback answers %d", fb, elapsed, lastCode, wantFallback), nil)
				return
			}
			if want := wantLocation(lastPath); want != "" && lastLocation != want {
				c.Eval()
				c.Violation("shield/answer", sfmt("refused request %d (%s) of a breaker whose fallback redirects to %s: answered with Location %q", nServed-1, lastPath, want, lastLocation), nil)
				return
			}
			if s, _, _ := d.observe(); s != "tripped" {
				c.Eval()
				c.Violation("transition", sfmt("fallback duration %v: %v after the trip the breaker is %s", fb, elapsed, s), nil)
				return
			}
		}
		c.Eval()
		c.Nontrivial(sfmt("longfallback/%v/%d/%d", fb, n, i))
		c.Count("longfallback_nontrivial", 1)
	})
	c.Require("longfallback_nontrivial", 2)
}

type slowWarnLogger struct{ d time.Duration }

func (slowWarnLogger) Debug(string, ...any)  {}
func (slowWarnLogger) Info(string, ...any)   {}
func (l slowWarnLogger) Warn(string, ...any) { time.Sleep(l.d) }
func (slowWarnLogger) Error(string, ...any)  {}

// cbStaleClear: a breaker that has been serving for minutes (the rolling latency histogram has gone round several times)
// trips on latency; tripping clears the metrics, so with every re-admitted request fast the condition cannot match again:
// no second trip, and after the recovery period the breaker is back in standby with all traffic passing.
func cbStaleClear(c *Ctx) {
	c.Cases("staleclear", c.N(120, 3000), func(i int, r *rand.Rand) {
		fb := pick(r, []time.Duration{time.Second, 3 * time.Second})
		rec := pick(r, []time.Duration{2 * time.Second, 5 * time.Second})
		freeze(baseTime.Add(time.Duration(r.Int64N(1e9))))
		defer unfreeze()
		var lat atomic.Int64
		lat.Store(int64(time.Millisecond))
		var handled atomic.Int64
		h := http.HandlerFunc(func(w http.ResponseWriter, req *http.Request) {
			handled.Add(1)
			advance(time.Duration(lat.Load())) // the request takes this long
			w.WriteHeader(200)
		})
		fbh := http.HandlerFunc(func(w http.ResponseWriter, req *http.Request) { w.WriteHeader(503) })
		q := pick(r, []float64{50, 50, 75, 90})
		cb, err := cbreaker.New(h, sfmt("LatencyAtQuantileMS(%.1f) > 100", q), cbreaker.FallbackDuration(fb), cbreaker.RecoveryDuration(rec), cbreaker.CheckPeriod(100*time.Millisecond), cbreaker.Fallback(fbh))
		if err != nil {
			panic(err)
		}
		d := &cbDriver{cb: cb}
		serve := func() int {
			rr := httptest.NewRecorder()
			cb.ServeHTTP(rr, httptest.NewRequest("GET", "http://x.test/", nil))
			return rr.Code
		}
		state := func() string { s, _, _ := d.observe(); return s }
		// phase 1: a long healthy life
		life := time.Duration(65+r.IntN(90)) * time.Second
		for t := time.Duration(0); t < life; {
			gap := time.Duration(500+r.IntN(3500)) * time.Millisecond
			advance(gap)
			t += gap
			serve()
		}
		if state() != "standby" {
			c.Eval()
			c.Violation("trip/spurious", sfmt("condition LatencyAtQuantileMS(%.1f) > 100 with 1ms responses only: the breaker is %s", q, state()), nil)
			return
		}
		// phase 2: the backend becomes slow until the breaker trips
		lat.Store(int64(time.Duration(300+r.IntN(600)) * time.Millisecond))
		tripped := false
		for k := 0; k < 400 && !tripped; k++ {
			advance(time.Duration(500+r.IntN(2500)) * time.Millisecond)
			serve()
			tripped = state() == "tripped"
		}
		c.Eval()
		if !tripped {
			c.Count("staleclear_never_tripped", 1)
			return
		}
		// phase 3: the backend is fast again
		lat.Store(int64(time.Millisecond))
		advance(fb + time.Millisecond)
		passed, refused := 0, 0
		for el := time.Duration(0); el <= rec+time.Second; el += 150 * time.Millisecond {
			h0 := handled.Load()
			serve()
			if handled.Load() != h0 {
				passed++
			} else {
				refused++
			}
			if s := state(); s == "tripped" {
				c.Violation("trip|recovering=true", sfmt("quantile %.1f, fallback %v, recovery %v, %v of healthy life before the slow spell: the breaker tripped on latency, the metrics were cleared, every re-admitted request took 1ms - and the breaker tripped again %v into the recovery period (%d passed, %d refused so far): latencies recorded before the trip still count", q, fb, rec, life, el, passed, refused), nil)
				return
			}
			advance(150 * time.Millisecond)
		}
		if s := state(); s != "standby" {
			c.Violation("recovery-end", sfmt("after the recovery period with only fast responses the breaker is %s, not standby", s), nil)
			return
		}
		if passed > 0 {
			c.Nontrivial(sfmt("staleclear/%v/%v/%v/%d", fb, rec, life, i))
			c.Count("staleclear_nontrivial", 1)
		}
	})
	c.Require("staleclear_nontrivial", 2)
}
