package main

import (
	"errors"
	"math/rand/v2"
	"sort"
	"strings"
	"sync"
	"sync/atomic"
	"net/http"
	"net/http/httptest"
	"net/url"
	"time"

	"github.com/vulcand/oxy/v2/memmetrics"
	"github.com/vulcand/oxy/v2/roundrobin"
)

func init() {
	register(&Property{
		ID:    "C10",
		Level: "exploration",
		Rule: "Rebalancer(RoundRobin) with scripted meters (rating in [0,1], readiness) on the frozen clock: pools of 2-7 servers, configured weights from {1,2,3,5,100,1024,4096,5000}, back-off 1s/10s/60s, rating histories (one/many failing, recovering, flapping, all failing, ties), membership and re-weight operations at random points, 200-2000 requests with clock steps around the timer boundary; " +
			"after every request the observed ServerWeight vector is checked for: range [1, max(4096,configured)], >= 1 back-off between changes, no outlier share increase at an adjustment with a non-trivial split (library's SplitFloat64(1.5,0,ratings)), configured weights right after membership changes, bounded progress P1 (outlier loses share within 2 back-offs) and P2 (proportional again within 6 adjustments / 9 back-offs); a smaller share runs the default code meters with failing backends; " +
			"part conc (race detector, real clock, 1ms back-off, a Logger that yields inside every log call): requests finishing (and adjusting weights) race with re-weight / remove / add calls; at the quiescent point membership and weight range are checked, then with equal ratings and one request per 2 back-offs the weights must be proportional to the configured ones within 6 adjustments; " +
			"the scripted backend lets time pass during a tenth of the requests (all instants of the oracle are request-end instants); part burst (race build, frozen clock): 8 requests finishing concurrently at one instant just past the back-off must leave the same weights as a twin that finishes them one after the other (at most one adjustment per back-off interval); " +
			"non-trivial = history with >= 2 observed adjustments of which >= 1 with outliers; distinct by (weights, back-off, script)",
		Assumptions: []string{"frozen library clock (hook)", "liveness restated as bounded progress on logical time (P1, P2) under the stated side conditions"},
		Parts: []Part{
			{Name: "scripted", Shards: 12, Fn: c10Scripted},
			{Name: "codemeter", Shards: 4, Fn: c10CodeMeter},
			{Name: "conc", Race: true, Shards: 4, Fn: c10Conc},
			{Name: "burst", Race: true, Shards: 4, Fn: c10Burst},
		},
	})
}

type c10Srv struct {
	u     *url.URL
	conf  int
	meter *scriptedMeter
}

func c10Prop(ws, conf []int) bool {
	// ws proportional to conf: ws[i]*conf[0] == conf[i]*ws[0] for all i (all positive)
	for i := range ws {
		if int64(ws[i])*int64(conf[0]) != int64(conf[i])*int64(ws[0]) {
			return false
		}
	}
	return true
}

func c10Scripted(c *Ctx) {
	c.Cases("hist", c.N(1000, 30000), func(i int, r *rand.Rand) {
		backoff := pick(r, []time.Duration{time.Second, 10 * time.Second, time.Minute})
		freeze(baseTime.Add(time.Duration(r.Int64N(1e9))))
		defer unfreeze()
		var pending []*scriptedMeter
		// a slow backend: time passes while the request is being served
		var inRequest time.Duration
		var served []string // hosts that served the requests of the final still stretch
		recording := false
		rr, _ := roundrobin.New(http.HandlerFunc(func(w http.ResponseWriter, req *http.Request) {
			if inRequest > 0 {
				advance(inRequest)
			}
			if recording {
				served = append(served, req.URL.Host)
			}
		}))
		failFactory := false
		rb, err := roundrobin.NewRebalancer(rr, roundrobin.RebalancerBackoff(backoff), roundrobin.RebalancerMeter(func() (roundrobin.Meter, error) {
			if failFactory {
				return nil, errors.New("meter factory failure injected by the harness")
			}
			m := &scriptedMeter{ready: true}
			pending = append(pending, m)
			return m, nil
		}))
		if err != nil {
			c.Violation("constructor", err.Error(), nil)
			return
		}
		confChoices := []int{1, 1, 1, 2, 3, 5, 100, 1024, 4096, 5000}
		var srvs []*c10Srv
		var script []string
		desc := func() map[string]any {
			return map[string]any{"backoff": backoff.String(), "script_tail": script[max(0, len(script)-40):]}
		}
		upsert := func(idx int, w int) bool {
			u := mustURL(sfmt("http://b%d.test/", idx))
			pending = nil
			// the caller hands over its own url.URL value and re-uses it for something else afterwards
			mine := *u
			if err := rb.UpsertServer(&mine, roundrobin.Weight(w)); err != nil {
				c.Violation("upsert/error", err.Error(), desc())
				return false
			}
			mine.Host, mine.Path = "reused-by-the-caller.test", "/elsewhere"
			for _, s := range srvs {
				if s.u.Host == u.Host {
					s.conf = w
					if len(pending) > 0 { // tolerated: implementation may or may not create a new meter
						s.meter = pending[len(pending)-1]
					}
					return true
				}
			}
			if len(pending) == 0 {
				c.Violation("meter/none", "no meter created for a new server", desc())
				return false
			}
			srvs = append(srvs, &c10Srv{u, w, pending[len(pending)-1]})
			return true
		}
		n := 2 + r.IntN(6)
		factor := 1
		if r.IntN(5) == 0 { // configured weights sharing a common factor (10,10,10 / 6,9,3 / 100,100 ...)
			factor = pick(r, []int{2, 3, 10, 100})
			confChoices = []int{factor, factor, 2 * factor, 3 * factor}
			c.Count("pools_with_common_factor", 1)
		}
		for k := 0; k < n; k++ {
			if !upsert(k, pick(r, confChoices)) {
				return
			}
		}
		nextIdx := n
		weights := func() ([]int, bool) {
			ws := make([]int, len(srvs))
			for k, s := range srvs {
				w, ok := rr.ServerWeight(s.u)
				if !ok {
					c.Violation("member/missing", sfmt("server %v disappeared from the balancer", s.u), desc())
					return nil, false
				}
				ws[k] = w
			}
			return ws, true
		}
		// the pool that serves traffic must be the one the rebalancer keeps records (and meters) for
		checkMembers := func(when string) bool {
			want := map[string]bool{}
			for _, sv := range srvs {
				want[sv.u.Host] = true
			}
			have := rr.Servers()
			for _, u := range have {
				if !want[u.Host] {
					c.Violation("member/unrecorded", sfmt("%s: the balancer routes to %v, which is not one of the servers registered through the rebalancer (%d registered): it has no meter, can never be rated and never loses share", when, u, len(srvs)), desc())
					return false
				}
			}
			if len(have) != len(srvs) {
				c.Violation("member/count", sfmt("%s: the balancer holds %d servers, %d are registered through the rebalancer", when, len(have), len(srvs)), desc())
				return false
			}
			return true
		}
		checkConfigured := func(when string) bool {
			ws, ok := weights()
			if !ok {
				return false
			}
			for k, s := range srvs {
				if ws[k] != s.conf {
					c.Violation("restore/not-configured", sfmt("%s: weights %v, configured %v", when, ws, confOf(srvs)), desc())
					return false
				}
			}
			return true
		}
		if !checkConfigured("after initial upserts") {
			return
		}
		// rating pattern state
		pattern := r.IntN(7)
		patternLeft := 0
		failing := map[int]bool{}
		var lastChange time.Time
		haveLast := false
		adjustments, adjustmentsWithOutliers := 0, 0
		// P1/P2 trackers
		type p1state struct {
			start      time.Time
			shareNum   int64 // share at start = num/den
			shareDen   int64
			decreased  bool
			active     bool
		}
		p1 := map[*c10Srv]*p1state{}
		p2active, p2start, p2adj := false, time.Time{}, 0
		lastReq := now()
		prev, ok := weights()
		if !ok {
			return
		}
		nreq := 200 + r.IntN(c.N(600, 1800))
		// the last 36 requests form a steady tail: no outliers, all meters ready, requests back-off/3 apart
		// (ten back-offs), so that the convergence clause P2 is always exercised to its bound
		for q := 0; q < nreq+36; q++ {
			tail := q >= nreq
			// occasionally administer
			if !tail && r.IntN(60) == 0 && len(srvs) >= 1 {
				op := r.IntN(5)
				switch {
				case op == 4:
					// an add whose meter cannot be created: the call fails and the server must not end up serving unmetered
					script = append(script, sfmt("add b%d with a failing meter factory", nextIdx))
					failFactory = true
					err := rb.UpsertServer(mustURL(sfmt("http://b%d.test/", nextIdx)), roundrobin.Weight(pick(r, confChoices)))
					failFactory = false
					nextIdx++
					if err == nil {
						c.Violation("upsert/failed-factory-accepted", "UpsertServer returned nil although the meter factory failed", desc())
						return
					}
					c.Count("adds_with_failing_meter_factory", 1)
					if !checkMembers("after an add that failed (meter factory error)") {
						return
					}
					continue
				case op == 3 && len(srvs) < 7:
					// a server that is added, serves while its meter is still warming up, and is taken out again before it is
					// ready
					script = append(script, sfmt("canary b%d (not ready) added, one request, removed", nextIdx))
					if !upsert(nextIdx, 1) {
						return
					}
					canary := srvs[len(srvs)-1]
					canary.meter.set(0, false)
					rb.ServeHTTP(httptest.NewRecorder(), httptest.NewRequest("GET", "http://c.test/", nil))
					if err := rb.RemoveServer(canary.u); err != nil {
						c.Violation("remove/error", err.Error(), desc())
						return
					}
					srvs = srvs[:len(srvs)-1]
					nextIdx++
					c.Count("canaries_removed_while_warming_up", 1)
				case op == 0 && len(srvs) < 7:
					script = append(script, sfmt("add b%d", nextIdx))
					if !upsert(nextIdx, pick(r, confChoices)) {
						return
					}
					nextIdx++
				case op == 1 && len(srvs) > 1: // (also down to a single server: its configured weight must be back in force)
					k := r.IntN(len(srvs))
					script = append(script, sfmt("remove %s", srvs[k].u.Host))
					if err := rb.RemoveServer(srvs[k].u); err != nil {
						c.Violation("remove/error", err.Error(), desc())
						return
					}
					delete(p1, srvs[k])
					srvs = append(srvs[:k:k], srvs[k+1:]...)
				default:
					k := r.IntN(len(srvs))
					w := pick(r, confChoices)
					script = append(script, sfmt("reweight %s %d", srvs[k].u.Host, w))
					idx := 0
					_, _ = sscanHost(srvs[k].u.Host, &idx)
					if !upsert(idx, w) {
						return
					}
				}
				c.Count("membership_changes", 1)
				if !checkConfigured("immediately after a membership / weight change") || !checkMembers("after a membership / weight change") {
					return
				}
				haveLast = false
				p1 = map[*c10Srv]*p1state{}
				p2active = false
				failing = map[int]bool{}
				prev, _ = weights()
			}
			// ratings for this request
			if tail {
				pattern, patternLeft = 3, 1000
			}
			if patternLeft == 0 {
				pattern = r.IntN(8)
				patternLeft = 10 + r.IntN(120)
				failing = map[int]bool{}
				switch pattern {
				case 0: // one failing
					failing[r.IntN(len(srvs))] = true
				case 1: // many failing
					for k := range srvs {
						if r.IntN(2) == 0 {
							failing[k] = true
						}
					}
				case 2: // all failing
					for k := range srvs {
						failing[k] = true
					}
				}
			}
			patternLeft--
			ratings := make([]float64, len(srvs))
			allReady := true
			for k, s := range srvs {
				var rt float64
				switch pattern {
				case 3: // all healthy
					rt = 0
				case 4: // ties
					rt = 0.25
				case 5: // noise
					rt = float64(r.IntN(1000)) / 1000
				case 6: // flapping by back-off parity
					if (int(now().Sub(baseTime)/backoff)+k)%2 == 0 {
						rt = 0.8
					}
				case 7: // small differences
					rt = 0.1 + float64(r.IntN(3))/100
				default:
					if failing[k] {
						rt = pick(r, []float64{0.5, 0.9, 1})
					} else {
						rt = pick(r, []float64{0, 0, 0.01})
					}
				}
				ready := r.IntN(40) != 0 || tail
				ratings[k] = rt
				if !ready {
					allReady = false
				}
				s.meter.set(rt, ready)
			}
			// clock step
			var step time.Duration
			switch r.IntN(10) {
			case 0:
				step = backoff + time.Duration(r.IntN(3)-1)
			case 1:
				step = backoff/2 + 1 + time.Duration(r.Int64N(int64(backoff)))
			case 2:
				step = 0
			default:
				step = time.Duration(r.Int64N(int64(backoff/2) + 1))
			}
			if tail {
				step = backoff / 3
			}
			advance(step)
			inRequest = 0
			if !tail && r.IntN(10) == 0 {
				inRequest = time.Duration(r.Int64N(int64(backoff)/20 + 1))
				if r.IntN(3) == 0 {
					inRequest = time.Duration(r.Int64N(int64(3*backoff) + 1))
				}
				c.Count("requests_during_which_time_passed", 1)
			}
			rb.ServeHTTP(httptest.NewRecorder(), httptest.NewRequest("GET", "http://c.test/", nil))
			// weights are adjusted when a request has finished: all instants below are request-end instants
			tnow := now()
			gapOK := tnow.Sub(lastReq) <= backoff/2
			lastReq = tnow
			c.Count("requests", 1)
			cur, ok := weights()
			if !ok {
				return
			}
			// I1 range
			for k, s := range srvs {
				if s.conf > 0 {
					hi := 4096
					if s.conf > hi {
						hi = s.conf
					}
					if cur[k] < 1 || cur[k] > hi {
						key := "range/above-cap"
						if cur[k] < 1 {
							key = "range/starved"
						}
						c.Violation(key, sfmt("effective weight of %s (configured %d) is %d, outside [1,%d]; weights %v", s.u.Host, s.conf, cur[k], hi, cur), desc())
						return
					}
				}
			}
			changed := !eqInts(cur, prev)
			_, bad := memmetrics.SplitFloat64(1.5, 0, ratings)
			isOut := make([]bool, len(srvs))
			anyOut, anyGood := false, false
			for k := range srvs {
				if bad[ratings[k]] {
					isOut[k] = true
					anyOut = true
				} else {
					anyGood = true
				}
			}
			split := anyOut && anyGood
			if changed {
				adjustments++
				c.Count("adjustments_observed", 1)
				script = append(script, sfmt("t+%v %v->%v ratings %v", tnow.Sub(baseTime).Round(time.Millisecond), prev, cur, ratings))
				// I2 back-off
				if haveLast && tnow.Sub(lastChange) < backoff {
					c.Violation("backoff/too-soon", sfmt("weights changed %v after the previous change; back-off is %v (%v -> %v)", tnow.Sub(lastChange), backoff, prev, cur), desc())
					return
				}
				lastChange, haveLast = tnow, true
				// I3 outlier share
				if split && allReady {
					adjustmentsWithOutliers++
					c.Count("adjustments_with_outliers", 1)
					var so, sn int64
					for k := range cur {
						so += int64(prev[k])
						sn += int64(cur[k])
					}
					for k := range cur {
						if isOut[k] && int64(cur[k])*so > int64(prev[k])*sn {
							c.Violation("share/outlier-gained", sfmt("adjustment with ratings %v: outlier %s went from %d/%d to %d/%d of the traffic", ratings, srvs[k].u.Host, prev[k], so, cur[k], sn), desc())
							return
						}
					}
				}
			} else if len(script) == 0 || script[len(script)-1] != "." {
				script = append(script, ".")
			}
			// P1
			var sum int64
			for _, w := range cur {
				sum += int64(w)
			}
			canGrow := false
			for k := range srvs {
				if !isOut[k] && srvs[k].conf > 0 && 4*cur[k] <= 4096 {
					canGrow = true
				}
			}
			for k, s := range srvs {
				st := p1[s]
				cond := split && allReady && isOut[k] && canGrow && gapOK && s.conf > 0
				if !cond {
					delete(p1, s)
					continue
				}
				if st == nil {
					// stretch starts with the share before this request
					var sp int64
					for _, w := range prev {
						sp += int64(w)
					}
					st = &p1state{start: tnow, shareNum: int64(prev[k]), shareDen: sp, active: true}
					p1[s] = st
				}
				if int64(cur[k])*st.shareDen < st.shareNum*sum {
					st.decreased = true
				}
				if !st.decreased && tnow.Sub(st.start) >= 2*backoff {
					c.Violation("progress/outlier-keeps-share", sfmt("%s has been an outlier for %v (>= 2 back-offs of %v) with all meters ready and a non-outlier able to grow, but its share never decreased (weights %v, ratings %v)", s.u.Host, tnow.Sub(st.start), backoff, cur, ratings), desc())
					return
				}
				if st.decreased {
					c.Count("p1_satisfied", 1)
					delete(p1, s) // restart a fresh stretch
				}
			}
			// P2
			if !split && allReady && gapOK {
				if !p2active {
					p2active, p2start, p2adj = true, tnow, 0
				}
				if changed {
					p2adj++
				}
				posW, posC := []int{}, []int{}
				for k, s := range srvs {
					if s.conf > 0 {
						posW = append(posW, cur[k])
						posC = append(posC, s.conf)
					}
				}
				prop := len(posW) == 0 || c10Prop(posW, posC)
				if !prop && (p2adj >= 6 || tnow.Sub(p2start) >= 9*backoff) {
					c.Violation("progress/no-convergence", sfmt("no outliers for %v (%d adjustments observed) but weights %v are still not proportional to the configured %v", tnow.Sub(p2start), p2adj, cur, confOf(srvs)), desc())
					return
				}
				if prop && p2adj > 0 {
					c.Count("p2_converged", 1)
					p2adj = 0
				}
			} else {
				p2active = false
			}
			prev = cur
		}
		if !checkMembers("at the end of the history") {
			return
		}
		// still stretch ("never starves"): the clock stands still and all servers are rated alike, so after one warm-up
		// request (which may be the one adjustment that is due) nothing can be due any more; in 2W further requests, W being
		// one full rotation of the effective weights, every server with a positive weight must have been given traffic
		inRequest = 0
		rb.ServeHTTP(httptest.NewRecorder(), httptest.NewRequest("GET", "http://c.test/", nil))
		if ws, ok := weights(); ok {
			g, sum := 0, 0
			for _, w := range ws {
				if w > 0 {
					g = gcdInt(g, w)
					sum += w
				}
			}
			if g > 0 && sum/g <= 3000 {
				W := sum / g
				recording = true
				for q := 0; q < 2*W; q++ {
					rb.ServeHTTP(httptest.NewRecorder(), httptest.NewRequest("GET", "http://c.test/", nil))
				}
				recording = false
				after, ok2 := weights()
				if ok2 && eqInts(ws, after) && len(served) == 2*W {
					got := map[string]int{}
					for _, h := range served {
						got[h]++
					}
					c.Count("still_stretches_checked", 1)
					for k, sv := range srvs {
						if ws[k] > 0 && got[sv.u.Host] == 0 {
							c.Violation("traffic/starved", sfmt("clock standing still, all servers rated alike, effective weights %v (one rotation = %d requests): %s has weight %d but received none of %d consecutive requests (%v)", ws, W, sv.u.Host, ws[k], 2*W, got), desc())
							return
						}
					}
				} else {
					c.Count("still_stretches_undecided", 1)
				}
			}
		}
		c.Eval()
		if adjustments >= 2 && adjustmentsWithOutliers >= 1 {
			c.Nontrivial(sfmt("%v/%v/%x", confOf(srvs), backoff, hash64(sfmt("%v", script))))
			c.Count("histories_nontrivial", 1)
		}
		if i < 2 {
			c.Sample(map[string]any{"backoff": backoff.String(), "configured": confOf(srvs), "adjustments": adjustments, "script_prefix": script[:min(len(script), 12)]})
		}
	})
	c.Require("histories_nontrivial", 2)
	c.Require("membership_changes", 1)
}

func confOf(s []*c10Srv) []int {
	o := make([]int, len(s))
	for i := range s {
		o[i] = s[i].conf
	}
	return o
}

func eqInts(a, b []int) bool {
	if len(a) != len(b) {
		return false
	}
	for i := range a {
		if a[i] != b[i] {
			return false
		}
	}
	return true
}

func sscanHost(h string, idx *int) (int, error) {
	n := 0
	for _, ch := range h {
		if ch >= '0' && ch <= '9' {
			n = n*10 + int(ch-'0')
		} else if n > 0 || ch == '.' {
			if ch == '.' {
				break
			}
		}
	}
	*idx = n
	return 1, nil
}

// c10CodeMeter: the default meters (real ratio counters), failing backends; range, back-off and restore invariants only.
func c10CodeMeter(c *Ctx) {
	c.Cases("codemeter", c.N(200, 5000), func(i int, r *rand.Rand) {
		backoff := pick(r, []time.Duration{time.Second, 10 * time.Second})
		freeze(baseTime)
		defer unfreeze()
		n := 2 + r.IntN(4)
		failRate := make(map[string]int)
		rr, _ := roundrobin.New(http.HandlerFunc(func(w http.ResponseWriter, req *http.Request) {
			if r.IntN(100) < failRate[req.URL.Host] {
				w.WriteHeader(502)
				return
			}
			w.WriteHeader(200)
		}))
		rb, err := roundrobin.NewRebalancer(rr, roundrobin.RebalancerBackoff(backoff))
		if err != nil {
			return
		}
		var srvs []*c10Srv
		for k := 0; k < n; k++ {
			u := mustURL(sfmt("http://b%d.test/", k))
			w := pick(r, []int{1, 1, 2, 3, 5})
			_ = rb.UpsertServer(u, roundrobin.Weight(w))
			srvs = append(srvs, &c10Srv{u: u, conf: w})
			failRate[u.Host] = pick(r, []int{0, 0, 0, 50, 100})
		}
		var prev []int
		var lastChange time.Time
		haveLast := false
		changes := 0
		for q := 0; q < 400+r.IntN(800); q++ {
			advance(time.Duration(r.Int64N(int64(400 * time.Millisecond))))
			if r.IntN(150) == 0 {
				for h := range failRate {
					failRate[h] = pick(r, []int{0, 0, 50, 100})
				}
			}
			if r.IntN(200) == 0 {
				k := r.IntN(len(srvs))
				w := pick(r, []int{1, 2, 4})
				_ = rb.UpsertServer(srvs[k].u, roundrobin.Weight(w))
				srvs[k].conf = w
				for _, s := range srvs {
					if got, _ := rr.ServerWeight(s.u); got != s.conf {
						c.Violation("restore/not-configured", sfmt("code meters: after re-weight weights are not the configured ones (%s: %d vs %d)", s.u.Host, got, s.conf), nil)
						return
					}
				}
				haveLast = false
				prev = nil
			}
			rb.ServeHTTP(httptest.NewRecorder(), httptest.NewRequest("GET", "http://c.test/", nil))
			cur := make([]int, len(srvs))
			for k, s := range srvs {
				cur[k], _ = rr.ServerWeight(s.u)
				if cur[k] < 1 || cur[k] > 4096 {
					c.Violation("range/starved", sfmt("code meters: weight of %s is %d", s.u.Host, cur[k]), nil)
					return
				}
			}
			if prev != nil && !eqInts(prev, cur) {
				changes++
				t := now()
				if haveLast && t.Sub(lastChange) < backoff {
					c.Violation("backoff/too-soon", sfmt("code meters: weights changed %v after the previous change; back-off %v", t.Sub(lastChange), backoff), nil)
					return
				}
				lastChange, haveLast = t, true
			}
			prev = cur
		}
		c.Eval()
		c.Count("codemeter_adjustments", int64(changes))
		if changes >= 1 {
			c.Nontrivial(sfmt("cm/%d/%v/%d/%d", n, backoff, changes, i))
		}
	})
	c.Require("codemeter_adjustments", 1)
}

// c10Conc: weight adjustments made by finishing requests race with administration. Whatever the interleaving, once
// everything is quiet the pool is the configured one, weights are in range, and - ratings equal, meters ready - the
// weights return to the configured proportions within six adjustments (one request every 2 back-offs of real time;
// time.Sleep never returns early, so each of those requests finds the back-off timer expired).
func c10Conc(c *Ctx) {
	c.Cases("conc", c.N(60, 1500), func(i int, r *rand.Rand) {
		const backoff = time.Millisecond
		var mmu sync.Mutex
		var created []*scriptedMeter
		rr, _ := roundrobin.New(http.HandlerFunc(func(w http.ResponseWriter, req *http.Request) {}))
		yl := &yieldLogger{}
		yl.seed.Store(r.Uint64())
		rb, err := roundrobin.NewRebalancer(rr, roundrobin.RebalancerBackoff(backoff), roundrobin.RebalancerLogger(yl), roundrobin.RebalancerMeter(func() (roundrobin.Meter, error) {
			m := &scriptedMeter{ready: true}
			mmu.Lock()
			created = append(created, m)
			mmu.Unlock()
			return m, nil
		}))
		if err != nil {
			c.Violation("constructor", err.Error(), nil)
			return
		}
		conf := map[string]int{}
		urlOf := func(k int) *url.URL { return mustURL(sfmt("http://b%d.test/", k)) }
		n := 2 + r.IntN(4)
		for k := 0; k < n; k++ {
			w := pick(r, []int{1, 1, 2, 3, 5})
			if err := rb.UpsertServer(urlOf(k), roundrobin.Weight(w)); err != nil {
				c.Violation("upsert/error", err.Error(), nil)
				return
			}
			conf[urlOf(k).Host] = w
		}
		var stop atomic.Bool
		var wg sync.WaitGroup
		var served atomic.Int64
		for g := 0; g < 6; g++ {
			wg.Add(1)
			go func() {
				defer wg.Done()
				for !stop.Load() {
					rb.ServeHTTP(httptest.NewRecorder(), httptest.NewRequest("GET", "http://c.test/", nil))
					served.Add(1)
				}
			}()
		}
		// ratings keep changing so that adjustments keep happening
		wg.Add(1)
		shSeed := r.Uint64()
		go func() {
			defer wg.Done()
			sr := rand.New(rand.NewPCG(shSeed, 11))
			for !stop.Load() {
				mmu.Lock()
				ms := append([]*scriptedMeter(nil), created...)
				mmu.Unlock()
				bad := sr.IntN(len(ms))
				for k, m := range ms {
					rt := 0.0
					if k == bad || sr.IntN(5) == 0 {
						rt = 0.9
					}
					m.set(rt, true)
				}
				time.Sleep(300 * time.Microsecond)
			}
		}()
		var ops []string
		nops := 40 + r.IntN(120)
		for s := 0; s < nops; s++ {
			k := r.IntN(6)
			u := urlOf(k)
			_, present := conf[u.Host]
			switch {
			case present && len(conf) > 2 && r.IntN(3) == 0:
				if err := rb.RemoveServer(u); err != nil {
					c.Violation("remove/error", err.Error(), map[string]any{"ops": ops})
					stop.Store(true)
					wg.Wait()
					return
				}
				delete(conf, u.Host)
				ops = append(ops, "remove "+u.Host)
			default:
				w := pick(r, []int{1, 1, 2, 3, 5, 100})
				if err := rb.UpsertServer(u, roundrobin.Weight(w)); err != nil {
					c.Violation("upsert/error", err.Error(), map[string]any{"ops": ops})
					stop.Store(true)
					wg.Wait()
					return
				}
				conf[u.Host] = w
				ops = append(ops, sfmt("upsert %s w=%d", u.Host, w))
			}
			time.Sleep(time.Duration(r.IntN(400)) * time.Microsecond)
		}
		stop.Store(true)
		wg.Wait()
		c.Eval()
		c.Count("conc_requests", served.Load())
		c.Count("conc_admin_calls", int64(nops))
		desc := map[string]any{"configured": conf, "last_ops": ops[max(0, len(ops)-20):]}
		// quiescent: membership
		var got, want []string
		for _, u := range rr.Servers() {
			got = append(got, u.Host)
		}
		for h := range conf {
			want = append(want, h)
		}
		sort.Strings(got)
		sort.Strings(want)
		if strings.Join(got, ",") != strings.Join(want, ",") {
			c.Violation("conc/membership", sfmt("after adjustments racing with administration the inner balancer holds %v, the calls made define %v", got, want), desc)
			return
		}
		hosts := want
		read := func() []int {
			ws := make([]int, len(hosts))
			for k, h := range hosts {
				ws[k], _ = rr.ServerWeight(mustURL("http://" + h + "/"))
			}
			return ws
		}
		cf := make([]int, len(hosts))
		for k, h := range hosts {
			cf[k] = conf[h]
		}
		cur := read()
		for k := range hosts {
			hi := max(4096, cf[k])
			if cur[k] < 1 || cur[k] > hi {
				c.Violation("conc/range", sfmt("at the quiescent point the effective weight of %s (configured %d) is %d; weights %v", hosts[k], cf[k], cur[k], cur), desc)
				return
			}
		}
		// ratings stop differing; one request every 2 back-offs
		mmu.Lock()
		for _, m := range created {
			m.set(0, true)
		}
		mmu.Unlock()
		adj := 0
		prev := cur
		var trail [][]int
		for q := 0; q < 12; q++ {
			time.Sleep(2 * backoff)
			rb.ServeHTTP(httptest.NewRecorder(), httptest.NewRequest("GET", "http://c.test/", nil))
			cur = read()
			trail = append(trail, cur)
			if !eqInts(cur, prev) {
				adj++
			}
			prev = cur
			if c10Prop(cur, cf) {
				break
			}
		}
		if !c10Prop(cur, cf) {
			desc["weights_after_each_quiet_request"] = trail
			c.Violation("conc/no-convergence", sfmt("after the racing phase, with equal ratings and %d requests 2 back-offs apart (%d adjustments observed), weights %v are not proportional to the configured %v", len(trail), adj, cur, cf), desc)
			return
		}
		c.Count("conc_convergence_checks", 1)
		c.Nontrivial(sfmt("conc/%v/%x", cf, hash64(sfmt("%v", ops))))
		c.Count("conc_nontrivial", 1)
	})
	c.Require("conc_nontrivial", 2)
}

// c10Burst: "weights change at most once per back-off interval" under concurrency. Two identical rebalancers with the
// same constant scripted ratings live on the same frozen clock. Each round the clock moves just past the back-off, then
// one instance finishes 8 requests concurrently at that instant and its twin 8 requests one after the other: only the
// first completion may adjust, so both must end the round with the same weights (one adjustment step).
func weights0(rr *roundrobin.RoundRobin, n int) []int {
	ws := make([]int, n)
	for k := range ws {
		ws[k], _ = rr.ServerWeight(mustURL(sfmt("http://b%d.test/", k)))
	}
	return ws
}

func c10Burst(c *Ctx) {
	c.Cases("burst", c.N(150, 3000), func(i int, r *rand.Rand) {
		backoff := pick(r, []time.Duration{time.Second, 10 * time.Second})
		freeze(baseTime.Add(time.Duration(r.Int64N(1e9))))
		defer unfreeze()
		n := 2 + r.IntN(4)
		conf := make([]int, n)
		rating := make([]float64, n)
		for k := range conf {
			conf[k] = pick(r, []int{1, 1, 2, 3, 5})
			if r.IntN(3) == 0 {
				rating[k] = 0.9
			}
		}
		rating[r.IntN(n)] = 0.9
		type inst struct {
			rr *roundrobin.RoundRobin
			rb *roundrobin.Rebalancer
		}
		mk := func(yield bool) (*inst, error) {
			rr, _ := roundrobin.New(http.HandlerFunc(func(w http.ResponseWriter, req *http.Request) {}))
			k := 0
			opts := []roundrobin.RebalancerOption{roundrobin.RebalancerBackoff(backoff), roundrobin.RebalancerMeter(func() (roundrobin.Meter, error) {
				m := &scriptedMeter{ready: true, rating: rating[k%n]}
				k++
				return m, nil
			})}
			if yield {
				yl := &yieldLogger{}
				yl.seed.Store(r.Uint64())
				opts = append(opts, roundrobin.RebalancerLogger(yl))
			}
			rb, err := roundrobin.NewRebalancer(rr, opts...)
			if err != nil {
				return nil, err
			}
			for k := 0; k < n; k++ {
				if err := rb.UpsertServer(mustURL(sfmt("http://b%d.test/", k)), roundrobin.Weight(conf[k])); err != nil {
					return nil, err
				}
			}
			return &inst{rr, rb}, nil
		}
		if i%4 == 0 {
			// a back-off longer than anything the clock will ever reach ("adjust once, then never again"): after the first
			// adjustment the weights stay where they are, however far the clock is moved
			saved := backoff
			backoff = time.Duration(1<<63 - 1)
			H, err := mk(false)
			backoff = saved
			if err != nil {
				c.Violation("constructor", err.Error(), nil)
				return
			}
			var first []int
			changes := 0
			prev := weights0(H.rr, n)
			for q := 0; q < 8; q++ {
				advance(time.Duration(1+r.IntN(3600)) * time.Second)
				H.rb.ServeHTTP(httptest.NewRecorder(), httptest.NewRequest("GET", "http://c.test/", nil))
				cur := weights0(H.rr, n)
				if !eqInts(cur, prev) {
					changes++
					if first == nil {
						first = cur
					}
				}
				prev = cur
			}
			c.Count("huge_backoff_runs", 1)
			if changes > 1 {
				c.Eval()
				c.Violation("backoff/too-soon", sfmt("back-off of the largest duration, configured %v, ratings %v: the weights changed %d times over 8 requests (first to %v, finally %v); at most one adjustment can ever fall into one back-off interval", conf, rating, changes, first, prev), nil)
				return
			}
		}
		A, err := mk(true)
		if err != nil {
			c.Violation("constructor", err.Error(), nil)
			return
		}
		B, err := mk(false)
		if err != nil {
			c.Violation("constructor", err.Error(), nil)
			return
		}
		weights := func(x *inst) []int {
			ws := make([]int, n)
			for k := range ws {
				ws[k], _ = x.rr.ServerWeight(mustURL(sfmt("http://b%d.test/", k)))
			}
			return ws
		}
		rounds := 3 + r.IntN(6)
		changed := 0
		var trail [][2][]int
		for round := 0; round < rounds; round++ {
			advance(backoff + time.Duration(1+r.IntN(1000)))
			before := weights(A)
			var wg sync.WaitGroup
			start := make(chan struct{})
			for g := 0; g < 8; g++ {
				wg.Add(1)
				go func() {
					defer wg.Done()
					<-start
					A.rb.ServeHTTP(httptest.NewRecorder(), httptest.NewRequest("GET", "http://c.test/", nil))
				}()
			}
			close(start)
			wg.Wait()
			for g := 0; g < 8; g++ {
				B.rb.ServeHTTP(httptest.NewRecorder(), httptest.NewRequest("GET", "http://c.test/", nil))
			}
			wa, wb := weights(A), weights(B)
			trail = append(trail, [2][]int{wa, wb})
			c.Count("burst_rounds", 1)
			if !eqInts(before, wa) {
				changed++
			}
			if !eqInts(wa, wb) {
				c.Eval()
				c.Violation("backoff/several-adjustments-at-one-instant", sfmt("back-off %v, configured %v, ratings %v: round %d: 8 requests finishing concurrently at one instant just past the back-off moved the weights %v -> %v; finishing one after the other (twin) they end at %v: more than one adjustment within a back-off interval", backoff, conf, rating, round, before, wa, wb),
					map[string]any{"configured": conf, "ratings": rating, "weights_concurrent_vs_sequential_per_round": trail})
				return
			}
		}
		c.Eval()
		if changed >= 2 {
			c.Nontrivial(sfmt("burst/%v/%v/%v/%d", conf, rating, backoff, rounds))
			c.Count("burst_nontrivial", 1)
		}
	})
	c.Require("burst_nontrivial", 2)
}
