#!/bin/bash
# tools/seedsweep.sh [name...]  — applies seeded changes to /repo itself (git -C /repo apply), runs the quick check of the
# property each breaks, and undoes it straight afterwards (git -C /repo checkout -- .). Without arguments: every seed, and
# seeded/MATRIX.md is rewritten; with names: only those, and their rows in seeded/MATRIX.md are replaced.
# Do not run ./check (or anything else that builds from /repo) while this runs.
set -u
ROOT=/verif
cd $ROOT
NAMES=("$@")
PARTIAL=1
if [ ${#NAMES[@]} -eq 0 ]; then PARTIAL=0; NAMES=($(ls seeded | grep -v MATRIX | sort -V)); fi
OUT=$(mktemp -d /tmp/seedsweep.XXXXXX)
: > $OUT/rows
for N in "${NAMES[@]}"; do
  [ -f seeded/$N/patch.diff ] || continue
  P=$(python3 -c "import json;print(json.load(open('seeded/$N/meta.json'))['breaks_property'])")
  SUP=$(python3 -c "import json;print(json.load(open('seeded/$N/meta.json')).get('superseded',False))")
  if [ -n "$(git -C /repo status --porcelain --untracked-files=no)" ]; then echo "/repo dirty, abort"; exit 2; fi
  if ! git -C /repo apply --check $ROOT/seeded/$N/patch.diff 2>/dev/null; then
    echo "| $N | $P | no (superseded by a later fix commit) | - | - | - |" >> $OUT/rows
    echo "$N: does not apply"
    continue
  fi
  git -C /repo apply $ROOT/seeded/$N/patch.diff
  RES=$(VERIF_OUT=$OUT/out ./check $P quick 2>&1); RC=$?
  git -C /repo checkout -- .
  KEY=$(echo "$RES" | grep -m1 '^  key=' | sed 's/^  key=\([^ ]*\).*/\1/')
  V=missed; [ $RC -eq 1 ] && V=detected; [ $RC -eq 2 ] && V=inconclusive
  [ "$SUP" = "True" ] && [ $RC -eq 0 ] && V="superseded (a later fix removed what the change relied on; it no longer breaks the property)"
  echo "| $N | $P | yes | $RC | $V | ${KEY:-} |" >> $OUT/rows
  echo "$N: $P exit=$RC $V $KEY"
done
python3 - $OUT/rows $PARTIAL <<'PY'
import sys,re
rows=[l.rstrip('\n') for l in open(sys.argv[1]) if l.startswith('|')]
partial=sys.argv[2]=='1'
path='/verif/seeded/MATRIX.md'
head=["# Seeded changes x checks (each patch applied to /repo, ./check <property> quick, then reverted)","","| seed | property | applies | check exit | verdict | first violation key |","|---|---|---|---|---|---|"]
old={}
if partial:
    try:
        for l in open(path):
            m=re.match(r'\| (C\d+-\d+) \|',l)
            if m: old[m.group(1)]=l.rstrip('\n')
    except FileNotFoundError: pass
for r in rows:
    old[re.match(r'\| (C\d+-\d+) \|',r).group(1)]=r
def key(n):
    a,b=n[1:].split('-'); return (int(a),int(b))
foot=["","Rows marked *missed*: C12-6, C20-6, C01-16 and C03-15 are detected by the checks of the properties they actually break (C05/C18, C07, C10, C14)","rather than by the one they were written against (C01-16 needs the rebalancer to re-weight on ratings, C03-15 more distinct sources than the capacity:","both outside what C01 / C03 state); C19-3 and C19-8 concern peer addresses without a port or without an IP, which C19 as stated does not quantify","over (see each meta.json and DESIGN.md 5.2-5.8)."]
open(path,'w').write('\n'.join(head+[old[k] for k in sorted(old,key=key)]+foot)+'\n')
PY
rm -rf $OUT
git -C /repo status --short | head -3
