#!/bin/bash
# tools/seedsweep.sh [name...]  — applies every seeded change to /repo itself (git -C /repo apply), runs the quick check of the
# property it breaks, and undoes it straight afterwards (git -C /repo checkout -- .). Writes seeded/MATRIX.md.
set -u
ROOT=/verif
cd $ROOT
NAMES=("$@")
if [ ${#NAMES[@]} -eq 0 ]; then NAMES=($(ls seeded | grep -v MATRIX | sort -V)); fi
OUT=$(mktemp -d /tmp/seedsweep.XXXXXX)
{
echo "# Seeded changes x checks (each patch applied to /repo, ./check <property> quick, then reverted)"
echo
echo "| seed | property | applies | check exit | verdict | first violation key |"
echo "|---|---|---|---|---|---|"
} > $OUT/MATRIX.md
for N in "${NAMES[@]}"; do
  [ -f seeded/$N/patch.diff ] || continue
  P=$(python3 -c "import json;print(json.load(open('seeded/$N/meta.json'))['breaks_property'])")
  if [ -n "$(git -C /repo status --porcelain --untracked-files=no)" ]; then echo "/repo dirty, abort"; exit 2; fi
  if ! git -C /repo apply --check $ROOT/seeded/$N/patch.diff 2>/dev/null; then
    echo "| $N | $P | no (superseded by a later fix commit) | - | - | - |" >> $OUT/MATRIX.md
    echo "$N: does not apply"
    continue
  fi
  git -C /repo apply $ROOT/seeded/$N/patch.diff
  RES=$(VERIF_OUT=$OUT/out ./check $P quick 2>&1); RC=$?
  git -C /repo checkout -- .
  KEY=$(echo "$RES" | grep -m1 '^  key=' | sed 's/^  key=\([^ ]*\).*/\1/')
  V=missed; [ $RC -eq 1 ] && V=detected; [ $RC -eq 2 ] && V=inconclusive
  echo "| $N | $P | yes | $RC | $V | ${KEY:-} |" >> $OUT/MATRIX.md
  echo "$N: $P exit=$RC $V $KEY"
done
cp $OUT/MATRIX.md seeded/MATRIX.md
rm -rf $OUT
git -C /repo status --short | head -3
