#!/bin/bash
# tools/seedsweep.sh [name...]  — applies seeded changes to /repo itself (git -C /repo apply), runs the quick check of the
# property each breaks, and undoes it straight afterwards (git -C /repo checkout -- .). Without arguments: every seed, and
# seeded/MATRIX.md is rewritten; with names: only those, and their rows in seeded/MATRIX.md are replaced.
# Do not run ./check (or anything else that builds from /repo) while this runs.
set -u
ROOT=/verif
cd $ROOT
NAMES=("$@")
PARTIAL=1
if [ ${#NAMES[@]} -eq 0 ]; then PARTIAL=0; NAMES=($(ls seeded | grep -v MATRIX | sort -V)); fi
OUT=$(mktemp -d /tmp/seedsweep.XXXXXX)
: > $OUT/rows
for N in "${NAMES[@]}"; do
  [ -f seeded/$N/patch.diff ] || continue
  P=$(python3 -c "import json;print(json.load(open('seeded/$N/meta.json'))['breaks_property'])")
  SUP=$(python3 -c "import json;print(json.load(open('seeded/$N/meta.json')).get('superseded',False))")
  if [ -n "$(git -C /repo status --porcelain --untracked-files=no)" ]; then echo "/repo dirty, abort"; exit 2; fi
  if ! git -C /repo apply --check $ROOT/seeded/$N/patch.diff 2>/dev/null; then
    echo "| $N | $P | no (superseded by a later fix commit) | - | - | - |" >> $OUT/rows
    echo "$N: does not apply"
    continue
  fi
  git -C /repo apply $ROOT/seeded/$N/patch.diff
  RES=$(VERIF_OUT=$OUT/out ./check $P quick 2>&1); RC=$?
  git -C /repo checkout -- .
  KEY=$(echo "$RES" | grep -m1 '^  key=' | sed 's/^  key=\([^ ]*\).*/\1/')
  V=missed; [ $RC -eq 1 ] && V=detected; [ $RC -eq 2 ] && V=inconclusive
  [ "$SUP" = "True" ] && [ $RC -eq 0 ] && V="superseded (a later fix removed what the change relied on; it no longer breaks the property)"
  echo "| $N | $P | yes | $RC | $V | ${KEY:-} |" >> $OUT/rows
  echo "$N: $P exit=$RC $V $KEY"
done
python3 $ROOT/tools/matrixmerge.py $OUT/rows $PARTIAL
rm -rf $OUT
git -C /repo status --short | head -3
