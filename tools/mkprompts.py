#!/usr/bin/env python3
# tools/mkprompts.py <root> — writes <root>/prompt_<Cxx>.txt for a further round of seeded changes: the property text plus
# one line per change already tried for it (from seeded/*/meta.json summaries). The sub-agents see nothing from /verif.
import json, os, sys, glob
root = sys.argv[1]
props = [json.loads(l) for l in open('/verif/properties.jsonl')]
tried = {}
for m in sorted(glob.glob('/verif/seeded/*/meta.json')):
    d = json.load(open(m))
    tried.setdefault(d['breaks_property'], []).append(d.get('summary', ''))
T = open('/verif/tools/prompt_template.txt').read()
for p in props:
    q = p.get('quantifier', {})
    txt = T.replace('@ID@', p['id']).replace('@ROOT@', root).replace('@TITLE@', p['title']).replace('@STATEMENT@', p['statement']).replace('@QUANT@', q.get('text', ''))
    txt = txt.replace('@TRIED@', '\n'.join('   - ' + s for s in tried.get(p['id'], []) if s))
    open(os.path.join(root, 'prompt_%s.txt' % p['id']), 'w').write(txt)
print(len(props))
