#!/bin/bash
# tools/seedsweep_wt.sh [-j N] [name...] — like seedsweep.sh, but every patch is applied to its own scratch worktree of /repo's
# HEAD (git worktree add; VERIF_REPO=<worktree> ./check <property> quick; worktree removed), N at a time, so that a full
# sweep takes minutes instead of hours and /repo itself is never touched. Rows of seeded/MATRIX.md for the named seeds (all
# seeds when none is named) are replaced. seedsweep.sh remains the tool that applies patches to /repo itself.
set -u
ROOT=/verif
cd $ROOT
J=5
if [ "${1:-}" = "-j" ]; then J="$2"; shift 2; fi
NAMES=("$@")
if [ ${#NAMES[@]} -eq 0 ]; then NAMES=($(ls seeded | grep -v MATRIX | sort -V)); fi
export GOFLAGS=-mod=mod GOPROXY=off GOSUMDB=off GOTOOLCHAIN=local
OUT=$(mktemp -d /tmp/seedsweepwt.XXXXXX)
one() {
  N="$1"; OUT="$2"
  [ -f /verif/seeded/$N/patch.diff ] || exit 0
  P=$(python3 -c "import json;print(json.load(open('/verif/seeded/$N/meta.json'))['breaks_property'])")
  SUP=$(python3 -c "import json;print(json.load(open('/verif/seeded/$N/meta.json')).get('superseded',False))")
  WT=$(mktemp -d /tmp/seedwt.XXXXXX)
  git -C /repo worktree add --detach "$WT" HEAD -q || { echo "$N: worktree failed"; exit 0; }
  if ! git -C "$WT" apply /verif/seeded/$N/patch.diff 2>/dev/null; then
    echo "| $N | $P | no (superseded by a later fix commit) | - | - | - |" > $OUT/$N.row
    echo "$N: does not apply"
  else
    RES=$(cd /verif && VERIF_REPO="$WT" VERIF_OUT="$WT/.vout" ./check $P quick 2>&1); RC=$?
    KEY=$(echo "$RES" | grep -m1 '^  key=' | sed 's/^  key=\([^ ]*\).*/\1/')
    V=missed; [ $RC -eq 1 ] && V=detected; [ $RC -eq 2 ] && V=inconclusive
    [ "$SUP" = "True" ] && [ $RC -eq 0 ] && V="superseded (a later fix removed what the change relied on; it no longer breaks the property)"
    echo "| $N | $P | yes | $RC | $V | ${KEY:-} |" > $OUT/$N.row
    echo "$N: $P exit=$RC $V $KEY"
  fi
  git -C /repo worktree remove --force "$WT"
}
export -f one
printf '%s\n' "${NAMES[@]}" | xargs -P "$J" -I{} bash -c 'one {} '"$OUT"
cat $OUT/*.row > $OUT/rows 2>/dev/null
python3 $ROOT/tools/matrixmerge.py $OUT/rows 1
rm -rf $OUT
git -C /repo worktree prune
