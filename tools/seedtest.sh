#!/bin/bash
# tools/seedtest.sh <name> <src_dir> <demo_dest_relative_path> <prop> [more props...]
# 1. verifies the seeded change in a scratch worktree (builds, suite passes twice, demo fails with / passes without)
# 2. stores it under /verif/seeded/<name>/
# 3. applies it to /repo, runs ./check <prop> quick for each prop, and reverts /repo
set -u
NAME="$1"; SRC="$2"; DEMODEST="$3"; shift 3; PROPS=("$@")
export GOFLAGS=-mod=mod GOPROXY=off GOSUMDB=off GOTOOLCHAIN=local
ROOT=/verif
DST=$ROOT/seeded/$NAME
mkdir -p "$DST"
cp "$SRC/patch.diff" "$DST/patch.diff"
DEMO=$(ls "$SRC" | grep -v -e patch.diff -e notes.md | head -1)
cp "$SRC/$DEMO" "$DST/$DEMO"
[ -f "$SRC/notes.md" ] && cp "$SRC/notes.md" "$DST/notes.md"
WT=$(mktemp -d /tmp/seedverify.XXXXXX)
git -C /repo worktree add --detach "$WT" HEAD -q || exit 2
res() { echo "$1" | tee -a "$DST/verify.log"; }
: > "$DST/verify.log"
APPLY=ok; BUILD=-; SUITE=-; DEMO_WITH=-; DEMO_WITHOUT=-
if ! git -C "$WT" apply "$DST/patch.diff" 2>>"$DST/verify.log"; then APPLY=fail; fi
if [ $APPLY = ok ]; then
  (cd "$WT" && go build ./... ) >>"$DST/verify.log" 2>&1 && BUILD=ok || BUILD=fail
  if [ $BUILD = ok ]; then
    SUITE=ok
    for i in 1 2; do (cd "$WT" && go test -vet=off -count=1 ./... ) >>"$DST/verify.log" 2>&1 || SUITE=fail; done
    cp "$DST/$DEMO" "$WT/$DEMODEST"
    (cd "$WT" && timeout 600 go test -vet=off -count=1 -run 'ZZ|Demo|demo' "./$(dirname "$DEMODEST")/" ) >>"$DST/verify.log" 2>&1 && DEMO_WITH=pass || DEMO_WITH=fail
    git -C "$WT" apply -R "$DST/patch.diff"
    (cd "$WT" && timeout 600 go test -vet=off -count=1 -run 'ZZ|Demo|demo' "./$(dirname "$DEMODEST")/" ) >>"$DST/verify.log" 2>&1 && DEMO_WITHOUT=pass || DEMO_WITHOUT=fail
  fi
fi
res "verify: apply=$APPLY build=$BUILD suite=$SUITE demo_with_change=$DEMO_WITH(expect fail) demo_without=$DEMO_WITHOUT(expect pass)"
DET=""
if [ $APPLY = ok ] && [ $BUILD = ok ]; then
  # run the checks against the scratch worktree with the change applied (VERIF_REPO: same harness, other repository path)
  rm -f "$WT/$DEMODEST"
  git -C "$WT" apply "$DST/patch.diff"
  for P in "${PROPS[@]}"; do
    OUT=$(cd $ROOT && VERIF_REPO="$WT" VERIF_OUT="$WT/.vout" ./check "$P" quick 2>&1); RC=$?
    echo "$OUT" | grep -E "^(VIOLATION|  key=|RESULT|INCONCLUSIVE|KNOWN)" | head -8 | cut -c1-400 | sed "s#$WT/.vout#<out>#g" >> "$DST/verify.log"
    res "check $P quick on seeded tree: exit=$RC $(echo "$OUT" | grep -c '^VIOLATION') violation line(s)"
    DET="$DET $P:$RC"
  done
fi
git -C /repo worktree remove --force "$WT"
python3 - "$DST" "$NAME" "$APPLY" "$BUILD" "$SUITE" "$DEMO_WITH" "$DEMO_WITHOUT" "$DEMO" "$DEMODEST" "$DET" "${PROPS[0]}" <<'PY'
import json,sys,os
dst,name,apply_,build,suite,dw,dwo,demo,dest,det,prop=sys.argv[1:12]
meta={"name":name,"breaks_property":prop,"patch":"patch.diff","demonstration":demo,"demonstration_goes_to":dest,
 "verified":{"applies":apply_,"builds":build,"existing_suite_passes_twice":suite,"demo_with_change":dw,"demo_without_change":dwo},
 "needs_to_manifest":"see notes.md","checks_run":{k:("detected" if v=="1" else ("missed" if v=="0" else "inconclusive")) for k,v in (x.split(":") for x in det.split())},
 "what_was_run":"tools/seedtest.sh: scratch worktree of /repo HEAD: git apply, go build ./..., go test -vet=off -count=1 ./... twice, demo with and without the change; then ./check <prop> quick with VERIF_REPO pointing at the scratch worktree that has the change applied (tools/seedsweep.sh repeats this against /repo itself: git -C /repo apply, ./check, git -C /repo checkout -- .)"}
old={}
if os.path.exists(dst+"/meta.json"):
    old=json.load(open(dst+"/meta.json"))
    for k in ("needs_to_manifest","summary"):
        if k in old: meta[k]=old[k]
json.dump(meta,open(dst+"/meta.json","w"),indent=1)
PY
