# Per-property manifest text. A property appears in MANIFEST.checks only when it is listed here.
PENDING_REASON = {}
RM = "runtime monitoring: "
CHECKS = {
 "C19": dict(level="exploration",
   technique=RM + "reference-oracle monitor (net.SplitHostPort) over generated and real-socket remote addresses",
   text="Every generated remote address / Host / header / variable name is pushed through the real extractors and compared with an independent oracle; real 127.0.0.1 and [::1] sockets supply the strings net/http actually produces. Held on all inputs generated; inputs are sampled, not enumerated.",
   note="Trusts net.SplitHostPort as the meaning of 'peer IP of host:port'. For malformed addresses only 'no panic' is demanded."),
 "C01": dict(level="exploration",
   technique=RM + "sliding-window count oracle over recorded selection sequences; exact-total check and porcupine linearizability check of concurrent call/return histories under the race detector",
   text="Every window offset of every generated selection sequence (>=3W selections per pool, pools reached through random prior histories) is compared with the exact count vector w_i/g; concurrent callers are checked by exact totals over K*W calls and by linearizability of recorded histories against the periodic sequence, with the race detector watching the balancer's state. Interleavings and weight vectors are sampled.",
   note="W capped at 20000; porcupine timeouts count as inconclusive; weights read back through ServerWeight()."),
 "C02": dict(level="exploration",
   technique=RM + "reference-model monitor (membership map) checked after every administration call, in-place URL mutation by downstream handlers, interval-membership oracle for requests racing with administration (race build)",
   text="The same generated add/update/remove/request script is run against RoundRobin and Rebalancer(RoundRobin); after every call Servers(), ServerWeight() and a full rotation of routed requests are compared with a reference map keyed by (scheme,host,path); handlers that rewrite req.URL in place probe the sticky and non-sticky paths; under concurrency each routed request must hit a server that was a positive-weight member at some instant between its call and return.",
   note="A new server added with weight 0 is modelled with the default weight 1. With scripted (ready) meters the weight comparison is made only right after membership/weight changes."),
 "C17": dict(level="exploration",
   technique=RM + "exact-bounds oracle over the harness's own increment log on the frozen library clock",
   text="Histories of Inc/Count/Clone/Reset and clock advances (sub-resolution, exact multiples, window +-1ns, multi-window gaps) for N in 1..12 and nine whole and fractional resolutions; each read is compared with the two exact sums the statement names. Ratio counters are checked the same way plus Ratio()==a/(a+b) at the same instant.",
   note="Frozen clock only; the instant between the two Now() calls inside one Inc is not separable without a hook inside Inc."),
}
