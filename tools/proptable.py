# Per-property manifest text. A property appears in MANIFEST.checks only when it is listed here.
PENDING_REASON = {}
RM = "runtime monitoring: "
CHECKS = {
 "C19": dict(level="exploration",
   technique=RM + "reference-oracle monitor (net.SplitHostPort) over generated and real-socket remote addresses",
   text="Every generated remote address / Host / header / variable name is pushed through the real extractors and compared with an independent oracle; real 127.0.0.1 and [::1] sockets supply the strings net/http actually produces. Held on all inputs generated; inputs are sampled, not enumerated.",
   note="Trusts net.SplitHostPort as the meaning of 'peer IP of host:port'. For malformed addresses only 'no panic' is demanded."),
}
