# helper for scripted edits: rep(path, old, new) fails loudly when old is not found exactly once
import sys
def rep(path, old, new, count=1):
    s = open(path).read()
    n = s.count(old)
    if n != count:
        sys.exit("pyrep: %s: pattern found %d times (want %d): %r" % (path, n, count, old[:80]))
    open(path, 'w').write(s.replace(old, new))
