#!/usr/bin/env python3
"""kf.py fixed <prop> <commit> <key> <what>   |   kf.py open <prop> <key> <what>"""
import json, sys
p = '/verif/known_findings.json'
d = json.load(open(p))
if sys.argv[1] == 'fixed':
    _, _, prop, commit, key, what = sys.argv
    d['findings'].append({"property": prop, "key": key, "what": what, "status": "fixed", "commit": commit,
                          "line": f"fixed: property={prop} {commit} {what}"})
else:
    _, _, prop, key, what = sys.argv
    d['findings'].append({"property": prop, "key": key, "what": what, "status": "open"})
json.dump(d, open(p, 'w'), indent=1)
