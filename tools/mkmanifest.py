#!/usr/bin/env python3
"""Regenerates /verif/MANIFEST.json from the table below (kept valid at all times)."""
import json, os, subprocess, sys
ROOT = os.path.dirname(os.path.dirname(os.path.abspath(__file__)))
sys.path.insert(0, os.path.join(ROOT, "tools"))
from proptable import CHECKS, PENDING_REASON

props = [json.loads(l) for l in open(os.path.join(ROOT, "properties.jsonl"))]
ids = [p["id"] for p in props]
hook_commits = subprocess.run(["git", "-C", "/repo", "log", "--format=%H", "--grep=^verif hook"], capture_output=True, text=True).stdout.split()

checks, na = [], []
for pid in ids:
    c = CHECKS.get(pid)
    if not c:
        na.append({"property_id": pid, "reason": PENDING_REASON.get(pid, "monitor not built yet in this framework (planned, see DESIGN.md section 4); no claim is made")})
        continue
    checks.append({
        "property_id": pid,
        "quick_cmd": f"./check {pid} quick",
        "thorough_cmd": f"./check {pid} thorough",
        "evidence_file": f"/verif/evidence/{pid}.json",
        "replay_cmd_template": f"./check {pid} --replay {{path}}",
        "engine": "vcheck",
        "level_claimed": {"category": c["level"], "text": c["text"], "design_ref": f"DESIGN.md section 4 {pid}"},
        "level_note": c["note"],
        "technique": c["technique"],
    })
m = {
    "version": 1,
    "setup_cmd": "./check --setup",
    "hooks": {
        "guard": "verif",
        "enable": "go build -tags verif (the harness module replaces github.com/vulcand/oxy/v2 by /repo; ./check rebuilds it from /repo's working tree on every call)",
        "baseline_off_cmd": "cd /repo && GOFLAGS=-mod=mod GOPROXY=off GOSUMDB=off GOTOOLCHAIN=local go test -vet=off -count=1 -timeout 25m ./...",
        "source_commits": hook_commits,
        "add_only": True,
    },
    "engines": [{
        "name": "vcheck", "path": "/verif/harness",
        "serves_properties": [c["property_id"] for c in checks],
        "kind_free_text": "Go harness: one driver + child processes (plain and -race builds) running hostile workloads against the real oxy packages under hand-written monitors (reference models, bound/conservation checkers over recorded event logs, porcupine linearizability checks, metamorphic twins) and the Go race detector",
    }],
    "checks": checks,
    "notes": "Runtime monitoring only. Exit codes of ./check: 0 held, 1 violation (VIOLATION line), 2 inconclusive (never on the unchanged tree). Known findings: /verif/known_findings.json.",
    "not_applicable": na,
}
json.dump(m, open(os.path.join(ROOT, "MANIFEST.json"), "w"), indent=1)
print("checks:", len(checks), "not claimed:", len(na))
