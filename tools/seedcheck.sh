#!/bin/bash
# tools/seedcheck.sh <seedname> <prop> [props...] — quick re-check of one stored seed: scratch worktree of /repo HEAD + patch,
# ./check <prop> quick via VERIF_REPO; prints exit code and the first violation keys. TIER=thorough for the thorough tier.
set -u
NAME="$1"; shift
export GOFLAGS=-mod=mod GOPROXY=off GOSUMDB=off GOTOOLCHAIN=local
WT=$(mktemp -d /tmp/seedcheck.XXXXXX)
git -C /repo worktree add --detach "$WT" HEAD -q || exit 2
if ! git -C "$WT" apply "/verif/seeded/$NAME/patch.diff"; then echo "$NAME: patch does not apply"; git -C /repo worktree remove --force "$WT"; exit 2; fi
for P in "$@"; do
  OUT=$(cd /verif && VERIF_REPO="$WT" VERIF_OUT="$WT/.vout" ./check "$P" "${TIER:-quick}" 2>&1); RC=$?
  echo "$NAME check $P: exit=$RC $(echo "$OUT" | grep -c '^VIOLATION') violation line(s)"
  echo "$OUT" | grep -E "^(  key=|INCONCLUSIVE)" | head -${SHOW:-4} | cut -c1-${WIDTH:-300}
done
git -C /repo worktree remove --force "$WT"
