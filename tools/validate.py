#!/opt/veriftools/pyvenv/bin/python3
import json, jsonschema, glob, sys
jsonschema.validate(json.load(open('/verif/MANIFEST.json')), json.load(open('/root/.vp/MANIFEST.schema.json')))
es = json.load(open('/root/.vp/EVIDENCE.schema.json'))
bad = 0
for f in sorted(glob.glob('/verif/evidence/*.json')):
    try:
        jsonschema.validate(json.load(open(f)), es)
    except Exception as e:
        bad += 1
        print("INVALID", f, str(e)[:300])
print("manifest valid; evidence files invalid:", bad)
sys.exit(1 if bad else 0)
