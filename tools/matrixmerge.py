#!/usr/bin/env python3
# tools/matrixmerge.py <rows-file> <partial:0|1> — merges sweep rows into seeded/MATRIX.md (used by seedsweep.sh and seedsweep_wt.sh)
import sys,re
rows=[l.rstrip('\n') for l in open(sys.argv[1]) if l.startswith('|')]
partial=sys.argv[2]=='1'
path='/verif/seeded/MATRIX.md'
head=["# Seeded changes x checks (each patch applied to /repo — or, by seedsweep_wt.sh, to a scratch worktree of /repo's HEAD —, ./check <property> quick, then reverted / removed)","","| seed | property | applies | check exit | verdict | first violation key |","|---|---|---|---|---|---|"]
old={}
if partial:
    try:
        for l in open(path):
            m=re.match(r'\| (C\d+-\d+) \|',l)
            if m: old[m.group(1)]=l.rstrip('\n')
    except FileNotFoundError: pass
for r in rows:
    old[re.match(r'\| (C\d+-\d+) \|',r).group(1)]=r
def key(n):
    a,b=n[1:].split('-'); return (int(a),int(b))
foot=["","Rows marked *missed*: C12-6, C20-6, C01-16, C03-15, C03-18 and C09-19 are detected by the checks of the properties they actually break (C05/C18, C07, C10, C14, C14, C18/C12/C05)","rather than by the one they were written against (C01-16 needs the rebalancer to re-weight on ratings, C03-15 and C03-18 more distinct sources than the capacity:","both outside what C01 / C03 state; C09-19 keeps every access under the mutex: no data race, no lost counter update); C19-3 and C19-8 concern peer addresses without a port or without an IP,","which C19 as stated does not quantify over (see each meta.json and DESIGN.md 5.2-5.10).","","C01-13 and C09-1 depend on an interleaving inside a very short window; in a parallel sweep that saturates the machine (seedsweep_wt.sh -j 5 next to other","work) they were missed once and detected when re-run singly; their rows are from the single re-run."]
open(path,'w').write('\n'.join(head+[old[k] for k in sorted(old,key=key)]+foot)+'\n')
