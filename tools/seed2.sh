#!/bin/bash
# tools/seed2.sh <Cxx> [extra props...] — processes round-2 seeds of a property from /tmp/wt2/<Cxx>/seeded_out/{1,2}
SROOT="${SEEDROOT:-/tmp/wt2}"; OFF="${SEEDOFF:-2}"; P="$1"; shift
declare -A DIRS=( [roundrobin]=roundrobin [stickycookie]=roundrobin/stickycookie [buffer]=buffer [cbreaker]=cbreaker [connlimit]=connlimit [forward]=forward [memmetrics]=memmetrics [ratelimit]=ratelimit [utils]=utils [trace]=trace [stream]=stream [collections]=internal/holsterv4/collections [clock]=internal/holsterv4/clock )
for k in 1 2; do
  d=$SROOT/$P/seeded_out/$k
  [ -f $d/patch.diff ] || { echo "$P-$((k+OFF)): no patch"; continue; }
  demo=$(ls $d | grep -v -e patch.diff -e notes.md | head -1)
  pkg=$(grep -m1 '^package ' $d/$demo | awk '{print $2}' | sed 's/_test$//')
  dir=${DIRS[$pkg]:-}
  if [ -z "$dir" ]; then echo "$P-$((k+OFF)): unknown package $pkg"; continue; fi
  echo "== $P-$((k+OFF)) ($dir)"
  /verif/tools/seedtest.sh $P-$((k+OFF)) $d $dir/zz_demo2_${k}_test.go $P "$@" 2>&1 | grep -E "^(verify|check)"
done
